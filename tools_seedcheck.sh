#!/bin/bash
# usage: tools_seedcheck.sh <worktree> <n> <PROP> [more props]
# 1. confirms in the scratch worktree: patch applies, builds, package tests pass, demo fails with patch and passes without
# 2. applies the patch to /repo, runs ./check <PROP> quick, restores /repo
export GOFLAGS=-mod=mod GOPROXY=off GOSUMDB=off GOTOOLCHAIN=local
wt=$1; n=$2; shift 2
d=$wt/OUT/$n
demo_dir=$(jq -r .demo_dir $d/meta.json)
git -C $wt checkout -q -- . ; 
mkdir -p /tmp/seedtmp; rm -rf /tmp/seedtmp/OUT; mv $wt/OUT /tmp/seedtmp/OUT; d=/tmp/seedtmp/OUT/$n
cp $d/demo_test.go $wt/$demo_dir/zz_seed_demo_test.go
echo "== demo on unchanged tree (must pass)"
(cd $wt && go test -vet=off -count=1 ./$demo_dir/ 2>&1 | tail -3)
git -C $wt apply $d/patch.diff || echo "PATCH DOES NOT APPLY"
echo "== demo on changed tree (must fail)"
(cd $wt && go test -vet=off -count=1 -run "$(grep -o 'func Test[A-Za-z0-9_]*' $d/demo_test.go | sed 's/func //' | paste -sd'|')" ./$demo_dir/ 2>&1 | tail -4)
rm $wt/$demo_dir/zz_seed_demo_test.go
echo "== existing tests on changed tree (must pass except 2 offline wordlist tests)"
(cd $wt && go build ./... && go test -vet=off -count=1 ./... 2>&1 | grep -v "^ok\|no test files" | tail -8)
git -C $wt checkout -q -- .
mv /tmp/seedtmp/OUT $wt/OUT; d=$wt/OUT/$n
echo "== govc on /repo with the patch"
git -C /repo apply $d/patch.diff
for p in "$@"; do (cd /verif && timeout 900 ./check $p quick 2>&1 | grep -v "^  ok" | tail -6; echo "exit=${PIPESTATUS[0]}"); done
git -C /repo checkout -- .
git -C /repo status --short | head -3
