package main

import (
	"fmt"
	"go/ast"
	"go/constant"
	"go/token"
	"go/types"
	"math/big"
	"sort"
	"strings"

	"golang.org/x/tools/go/packages"
)

// MapV: only maps with constant keys built from a literal are supported (lookup tables).
type MapV struct {
	Keys []Value
	Vals []Value
	Typ  types.Type
}

func (x *Exec) safety(e *Env, kind string, at ast.Node, cond *Term) {
	if e.contract || x.inGlobalInit > 0 || x.quiet > 0 || x.fieldModulus != nil {
		return
	}
	if cond.IsTrue() {
		x.trivial++
		return
	}
	fr := x.top()
	n := 0
	if at != nil {
		n = x.nodeOrdOf(fr, at)
	}
	name := fmt.Sprintf("safe.%s.%d", kind, n)
	if len(x.frames) > 1 {
		name = fmt.Sprintf("safe.%s.%s.%d", kind, fr.name, n)
	}
	x.addObl("safe."+kind, name, e.st, cond, x.pos(at))
	e.st.assume(cond)
}

var nodeOrdCache = map[*ast.FuncDecl]map[ast.Node]int{}

func (x *Exec) nodeOrdOf(fr *frame, at ast.Node) int {
	m, ok := nodeOrdCache[fr.fn]
	if !ok {
		m = numberNodes(fr.fn.Body)
		nodeOrdCache[fr.fn] = m
	}
	return m[at]
}

// ---------------------------------------------------------------- fresh symbolic values

func (x *Exec) elemRangeAxiom(e *Env, arr *Term, elem types.Type) *Term {
	if arr.S.Elem != IntS {
		return TrueT
	}
	if _, ok := intInfoOf(elem); !ok || isMathInt(elem) {
		return TrueT
	}
	k := x.fresh("k", IntS)
	return Forall([]*Term{k}, e.R().rangeOf(Select(arr, k), elem))
}

func (x *Exec) havoc(e *Env, t types.Type, base string) Value {
	if isBigIntType(t) {
		return Scalar{x.fresh(base, IntS), mathIntType}
	}
	if types.TypeString(t, nil) == "hash.Hash" {
		// a hash object of unknown origin: an unknown hash function that has been fed unknown bytes
		h := HashV{Name: "cryptohash", Fn: x.fresh(base+".fn", IntS), Typ: t}
		h.Size = App("hashsize", IntS, h.Fn)
		es := e.R().sortOf(byteT)
		ln := x.fresh(base+".written", IntS)
		e.st.assume(Le(IntC(0), ln))
		h.Chunks = []hchunk{{arr: x.fresh(base+".data", ArrS(es)), off: IntC(0), len: ln}}
		return h
	}
	if as := abstractSort(t); as != nil {
		return Scalar{x.fresh(base, as), t}
	}
	switch u := t.Underlying().(type) {
	case *types.Basic:
		if u.Info()&types.IsString != 0 {
			a := x.alloc()
			arr := x.fresh(base+".arr", ArrS(e.R().sortOf(byteT)))
			e.st.mem[a] = ArrayV{T: arr, N: -1, Elem: byteT}
			e.st.assume(x.elemRangeAxiom(e, arr, byteT))
			ln := x.fresh(base+".len", IntS)
			e.st.assume(Le(IntC(0), ln))
			e.st.assume(Le(ln, IntB(maxInt63)))
			return SliceV{Alloc: a, Off: IntC(0), Len: ln, Cap: ln, Elem: byteT, IsString: true, Nil: FalseT, Typ: t}
		}
		if u.Info()&types.IsFloat != 0 {
			return AbsV{x.fresh(base, UnS("Float")), t}
		}
		s := e.R().sortOf(t)
		if s == nil {
			unsupported("symbolic value of type %s", t)
		}
		v := x.fresh(base, s)
		e.st.assume(e.R().rangeOf(v, t))
		return Scalar{v, t}
	case *types.Slice:
		es := e.R().sortOf(u.Elem())
		if es == nil {
			return x.havocSliceOf(e, t, u, base)
		}
		a := x.alloc()
		arr := x.fresh(base+".arr", ArrS(es))
		e.st.mem[a] = ArrayV{T: arr, N: -1, Elem: u.Elem()}
		e.st.assume(x.elemRangeAxiom(e, arr, u.Elem()))
		ln := x.fresh(base+".len", IntS)
		cp := x.fresh(base+".cap", IntS)
		nl := x.fresh(base+".nil", BoolS)
		e.st.assume(Le(IntC(0), ln))
		e.st.assume(Le(ln, cp))
		e.st.assume(Le(cp, IntB(maxInt63)))
		e.st.assume(Implies(nl, Eq(cp, IntC(0))))
		return SliceV{Alloc: a, Off: IntC(0), Len: ln, Cap: cp, Elem: u.Elem(), Nil: nl, Typ: t}
	case *types.Array:
		es := e.R().sortOf(u.Elem())
		if es == nil {
			unsupported("symbolic array of %s", u.Elem())
		}
		arr := x.fresh(base, ArrS(es))
		e.st.assume(x.elemRangeAxiom(e, arr, u.Elem()))
		return ArrayV{T: arr, N: u.Len(), Elem: u.Elem(), Typ: t}
	case *types.Struct:
		if v, ok := x.havocSpecialStruct(e, t, base); ok {
			return v
		}
		f := map[string]Value{}
		for i := 0; i < u.NumFields(); i++ {
			f[u.Field(i).Name()] = x.havoc(e, u.Field(i).Type(), base+"."+u.Field(i).Name())
		}
		return StructV{F: f, Typ: t}
	case *types.Pointer:
		if v, ok := x.havocSpecialPtr(e, t, u, base); ok {
			return v
		}
		a := x.alloc()
		e.st.mem[a] = x.havoc(e, u.Elem(), base+".*")
		return PtrV{Alloc: a, Nil: x.fresh(base+".nil", BoolS), Typ: t}
	case *types.Interface:
		if isErrorType(t) {
			return ErrV{Nil: x.fresh(base+".nil", BoolS), Kind: x.fresh(base+".kind", IntS), Type: x.fresh(base+".type", IntS), Off: x.fresh(base+".off", IntS)}
		}
		return Scalar{x.fresh(base, UnS(absSortNameV(t))), t}
	case *types.Signature:
		return AbsV{x.fresh(base, UnS("Func")), t}
	}
	unsupported("symbolic value of type %s", t)
	return nil
}

// ---------------------------------------------------------------- calls

func (e *Env) call(n *ast.CallExpr) Value {
	// conversion?
	if info := e.info(); info != nil {
		if tv, ok := info.Types[n.Fun]; ok && tv.IsType() {
			v := e.expr(n.Args[0])
			return e.convertExpr(v, tv.Type, n)
		}
	}
	fun := n.Fun
	if p, ok := fun.(*ast.ParenExpr); ok {
		fun = p.X
	}
	if id, ok := fun.(*ast.Ident); ok {
		isCode := false
		if info := e.info(); info != nil {
			if o := info.Uses[id]; o != nil {
				isCode = true
				if _, isB := o.(*types.Builtin); isB {
					return e.builtin(id.Name, n)
				}
			}
		}
		if !isCode {
			if v, ok := e.contractForm(id.Name, n); ok {
				return v
			}
			switch id.Name {
			case "len", "cap", "min", "max":
				return e.builtin(id.Name, n)
			}
			// type conversion in contract text
			if t, err := e.x.U.resolveType(e.pkg, id); err == nil {
				return e.convertExpr(e.expr(n.Args[0]), t, n)
			}
			if sf := e.x.findSpec(e.pkg, id.Name); sf != nil {
				return e.x.callSpec(e, sf, n)
			}
		}
	}
	if sel, ok := fun.(*ast.SelectorExpr); ok && e.contract {
		// contract text: pkg.Func(...) or pkg.Type(...) or pkg.spec(...)
		if id, ok := sel.X.(*ast.Ident); ok {
			if !e.isBound(id.Name) && !e.hasLocal(id.Name) {
				if p := e.x.findPkgByName(e.pkg, id.Name); p != nil {
					if sf, ok := e.x.U.Specs[p.Path()+"."+sel.Sel.Name]; ok {
						return e.x.callSpec(e, sf, n)
					}
					if r, ok := e.x.U.SameAs[p.Path()]; ok {
						if sf, ok := e.x.U.Specs[r+"."+sel.Sel.Name]; ok {
							return e.x.callSpec(e, sf, n)
						}
					}
					if tn, ok := p.Scope().Lookup(sel.Sel.Name).(*types.TypeName); ok {
						return e.convertExpr(e.expr(n.Args[0]), tn.Type(), n)
					}
				}
			}
		}
	}
	// function or method call
	callee, recv := e.resolveCallee(fun)
	if callee == nil {
		if v, ok := e.x.callDynamic(e, fun, n); ok {
			return v
		}
		unsupported("%s: cannot resolve callee of %s", e.where, exprText(fun))
	}
	return e.x.callFunc(e, callee, recv, n)
}

func exprText(e ast.Expr) string {
	switch x := e.(type) {
	case *ast.Ident:
		return x.Name
	case *ast.SelectorExpr:
		return exprText(x.X) + "." + x.Sel.Name
	case *ast.CallExpr:
		return exprText(x.Fun) + "(...)"
	case *ast.ParenExpr:
		return "(" + exprText(x.X) + ")"
	case *ast.StarExpr:
		return "*" + exprText(x.X)
	case *ast.UnaryExpr:
		return x.Op.String() + exprText(x.X)
	case *ast.CompositeLit:
		return "lit{}"
	}
	return fmt.Sprintf("%T", e)
}

func (e *Env) convertExpr(v Value, t types.Type, at ast.Node) Value {
	return e.convert(v, t)
}

// resolveCallee returns the static callee and the receiver expression (if a method call).
func (e *Env) resolveCallee(fun ast.Expr) (*types.Func, ast.Expr) {
	info := e.info()
	switch f := fun.(type) {
	case *ast.Ident:
		if info != nil {
			if o, ok := info.Uses[f].(*types.Func); ok {
				return o, nil
			}
		}
		if e.pkg != nil {
			if o, ok := e.pkg.Types.Scope().Lookup(f.Name).(*types.Func); ok {
				return o, nil
			}
		}
	case *ast.SelectorExpr:
		if info != nil {
			if sel, ok := info.Selections[f]; ok {
				if fn, ok := sel.Obj().(*types.Func); ok {
					return fn, f.X
				}
			}
			if o, ok := info.Uses[f.Sel].(*types.Func); ok {
				return o, nil
			}
		}
		if id, ok := f.X.(*ast.Ident); ok && e.contract {
			if !e.isBound(id.Name) && !e.hasLocal(id.Name) {
				if p := e.x.findPkgByName(e.pkg, id.Name); p != nil {
					if o, ok := p.Scope().Lookup(f.Sel.Name).(*types.Func); ok {
						return o, nil
					}
				}
			}
		}
		if e.contract && info == nil {
			// method call on a value in contract text: resolve through the value's Go type
			var rv Value
			func() {
				defer func() { recover() }()
				rv = e.expr(f.X)
			}()
			var t types.Type
			switch c := rv.(type) {
			case AbsV:
				t = c.Typ
			case Scalar:
				t = c.Typ
			case StructV:
				t = c.Typ
			case SliceV:
				t = c.Typ
			case PtrV:
				t = c.Typ
			}
			if t != nil {
				if m := lookupMethod(t, f.Sel.Name); m != nil {
					return m, f.X
				}
			}
		}
	}
	return nil, nil
}

func (e *Env) builtin(name string, n *ast.CallExpr) Value {
	switch name {
	case "len", "cap":
		v := e.expr(n.Args[0])
		if p, ok := v.(PtrV); ok {
			v = navigate(e.x.memCell(e.st, p.Alloc), p.Path)
		}
		switch s := v.(type) {
		case SliceV:
			if name == "cap" {
				return Scalar{s.Cap, intT}
			}
			return Scalar{s.Len, intT}
		case ArrayV:
			return Scalar{IntC(s.N), intT}
		case MapV:
			return Scalar{IntC(int64(len(s.Keys))), intT}
		case SeqV:
			return Scalar{s.Len, intT}
		}
		unsupported("%s: len of %T", e.where, v)
	case "min", "max":
		a := e.expr(n.Args[0])
		b := e.expr(n.Args[1])
		a, b = e.unify(a, b)
		c := e.boolTerm(e.binop(token.LSS, a, b, n))
		sa, sb := a.(Scalar), b.(Scalar)
		if name == "min" {
			return Scalar{Ite(c, sa.T, sb.T), sa.Typ}
		}
		return Scalar{Ite(c, sb.T, sa.T), sa.Typ}
	case "make":
		t := e.typeOf(n.Args[0])
		if t == nil {
			unsupported("make without type info")
		}
		switch u := t.Underlying().(type) {
		case *types.Slice:
			ln := e.toIntTerm(e.expr(n.Args[1]))
			cp := ln
			e.x.safety(e, "makelen", n, Le(IntC(0), ln))
			if len(n.Args) > 2 {
				cp = e.toIntTerm(e.expr(n.Args[2]))
				e.x.safety(e, "makecap", n, Le(ln, cp))
			}
			if e.R().sortOf(u.Elem()) == nil {
				return e.x.makeSliceOf(e, t, u, ln, cp)
			}
			a := e.x.alloc()
			e.st.mem[a] = ArrayV{T: ConstArr(e.zeroElem(u.Elem())), N: -1, Elem: u.Elem()}
			return SliceV{Alloc: a, Off: IntC(0), Len: ln, Cap: cp, Elem: u.Elem(), Nil: FalseT, Typ: t}
		case *types.Map:
			return MapV{Typ: t}
		case *types.Chan:
			unsupported("channels")
		}
		unsupported("make(%s)", t)
	case "new":
		t := e.typeOf(n.Args[0])
		if v, ok := e.x.newSpecial(e, t); ok {
			return v
		}
		a := e.x.alloc()
		e.st.mem[a] = e.zeroValue(t, true)
		return PtrV{Alloc: a, Nil: FalseT, Typ: types.NewPointer(t)}
	case "append":
		return e.appendBuiltin(n)
	case "copy":
		return e.copyBuiltin(n)
	case "panic":
		unsupported("panic in expression position")
	}
	unsupported("builtin %s", name)
	return nil
}

func (e *Env) appendBuiltin(n *ast.CallExpr) Value {
	base := e.expr(n.Args[0])
	if _, isNil := base.(NilV); isNil {
		base = e.zeroValue(e.typeOf(n), true)
	}
	s, ok := base.(SliceV)
	if !ok {
		if sq, ok := base.(SeqV); ok {
			return e.x.appendSeq(e, sq, n)
		}
		unsupported("%s: append to %T", e.where, base)
	}
	if e.R().sortOf(s.Elem) == nil {
		unsupported("%s: append to slice of %s", e.where, s.Elem)
	}
	old := e.x.memArr(e.st, s.Alloc, s.path)
	a := e.x.alloc()
	if n.Ellipsis.IsValid() {
		tv := e.expr(n.Args[1])
		t, ok := tv.(SliceV)
		if !ok {
			unsupported("append(s, x...) with %T", tv)
		}
		src := e.x.memArr(e.st, t.Alloc, t.path)
		arr := old.T
		if c, ok := t.Len.Int64(); ok && c <= 64 {
			for i := int64(0); i < c; i++ {
				arr = Store(arr, Add(Add(s.Off, s.Len), IntC(i)), Select(src.T, Add(t.Off, IntC(i))))
			}
		} else {
			na := e.x.fresh("append", old.T.S)
			j := e.x.fresh("j", IntS)
			e.st.assume(Forall([]*Term{j}, Implies(And(Le(IntC(0), j), Lt(j, s.Len)), Eq(Select(na, Add(s.Off, j)), Select(old.T, Add(s.Off, j))))))
			j2 := e.x.fresh("j", IntS)
			e.st.assume(Forall([]*Term{j2}, Implies(And(Le(IntC(0), j2), Lt(j2, t.Len)), Eq(Select(na, Add(Add(s.Off, s.Len), j2)), Select(src.T, Add(t.Off, j2))))))
			e.st.assume(e.x.elemRangeAxiom(e, na, s.Elem))
			arr = na
		}
		e.st.mem[a] = ArrayV{T: arr, N: -1, Elem: s.Elem}
		nl := Add(s.Len, t.Len)
		e.x.appendInPlace(e, s, old, arr, nl)
		cp := e.x.fresh("cap", IntS)
		e.st.assume(Le(nl, cp))
		return SliceV{Alloc: a, Off: s.Off, Len: nl, Cap: cp, Elem: s.Elem, Nil: And(s.Nil, t.Nil), Typ: s.Typ}
	}
	arr := old.T
	for i, ax := range n.Args[1:] {
		v := e.assignable(e.expr(ax), s.Elem).(Scalar)
		arr = Store(arr, Add(Add(s.Off, s.Len), IntC(int64(i))), v.T)
	}
	e.st.mem[a] = ArrayV{T: arr, N: -1, Elem: s.Elem}
	nl := Add(s.Len, IntC(int64(len(n.Args)-1)))
	e.x.appendInPlace(e, s, old, arr, nl)
	cp := e.x.fresh("cap", IntS)
	e.st.assume(Le(nl, cp))
	return SliceV{Alloc: a, Off: s.Off, Len: nl, Cap: cp, Elem: s.Elem, Nil: FalseT, Typ: s.Typ}
}

// appendInPlace: when the spare capacity of s suffices, append writes the new elements into the
// backing array of s itself. The result of append is modelled as a fresh allocation with the right
// contents; the effect on the old backing array (visible through every other slice of it, and to
// the frame checks) is modelled here: old' = fits ? written : old.
func (x *Exec) appendInPlace(e *Env, s SliceV, old ArrayV, written *Term, newLen *Term) {
	if written == old.T {
		return
	}
	if s.Alloc == 0 {
		return
	}
	fits := x.simplifyWithPC(e.st, Le(newLen, s.Cap))
	if fits.IsFalse() {
		return
	}
	x.setMem(e.st, s.Alloc, s.path, ArrayV{T: Ite(fits, written, old.T), N: old.N, Elem: old.Elem, Typ: old.Typ})
}

func (e *Env) copyBuiltin(n *ast.CallExpr) Value {
	dv := e.expr(n.Args[0])
	sv := e.expr(n.Args[1])
	d, ok1 := dv.(SliceV)
	s, ok2 := sv.(SliceV)
	if !ok1 || !ok2 {
		unsupported("%s: copy(%T, %T)", e.where, dv, sv)
	}
	cnt := Ite(Le(d.Len, s.Len), d.Len, s.Len)
	e.x.copyRange(e, d, s, cnt)
	return Scalar{cnt, intT}
}

// copyRange: dst[0:cnt] = src[0:cnt]
func (x *Exec) copyRange(e *Env, d, s SliceV, cnt *Term) {
	darr := x.memArr(e.st, d.Alloc, d.path)
	sarr := x.memArr(e.st, s.Alloc, s.path)
	if _, ok := cnt.Int64(); !ok {
		cnt = x.simplifyWithPC(e.st, cnt)
	}
	if c, ok := cnt.Int64(); ok && c <= 64 {
		arr := darr.T
		for i := int64(0); i < c; i++ {
			arr = Store(arr, Add(d.Off, IntC(i)), Select(sarr.T, Add(s.Off, IntC(i))))
		}
		x.setMem(e.st, d.Alloc, d.path, ArrayV{T: arr, N: darr.N, Elem: darr.Elem, Typ: darr.Typ})
		return
	}
	na := x.fresh("copy", darr.T.S)
	j := x.fresh("j", IntS)
	in := And(Le(d.Off, j), Lt(j, Add(d.Off, cnt)))
	e.st.assume(Forall([]*Term{j}, Eq(Select(na, j), Ite(in, Select(sarr.T, Add(Sub(j, d.Off), s.Off)), Select(darr.T, j)))))
	x.setMem(e.st, d.Alloc, d.path, ArrayV{T: na, N: darr.N, Elem: darr.Elem, Typ: darr.Typ})
}

// ---------------------------------------------------------------- contract forms

func (e *Env) contractForm(name string, n *ast.CallExpr) (Value, bool) {
	switch name {
	case "old":
		if e.oldSt == nil {
			unsupported("%s: old() without an entry state", e.where)
		}
		e2 := *e
		e2.st = e.oldSt
		if on, ok := e.names["#old"]; ok {
			e2.names = on.(namesBox).m
		}
		return e2.expr(n.Args[0]), true
	case "implies":
		a := e.boolTerm(e.expr(n.Args[0]))
		if a.IsFalse() {
			return Scalar{TrueT, boolT}, true
		}
		b := e.boolTerm(e.expr(n.Args[1]))
		return Scalar{Implies(a, b), boolT}, true
	case "typeis":
		// typeis(v, T): the dynamic (concrete) type of an interface value, decided per path
		v := e.expr(n.Args[0])
		want := exprText(n.Args[1])
		got := ""
		switch c := v.(type) {
		case StructV:
			got = types.TypeString(c.Typ, func(*types.Package) string { return "" })
		case PtrV:
			if c.Typ != nil {
				got = types.TypeString(c.Typ, func(*types.Package) string { return "" })
			}
		case SliceV:
			if c.Typ != nil {
				got = types.TypeString(c.Typ, func(*types.Package) string { return "" })
			}
		case AbsV:
			return Scalar{FalseT, boolT}, true
		}
		if i := strings.LastIndex(want, "."); i >= 0 {
			want = want[i+1:]
		}
		return Scalar{BoolC(got == want || got == "*"+want), boolT}, true
	case "iff":
		a := e.boolTerm(e.expr(n.Args[0]))
		b := e.boolTerm(e.expr(n.Args[1]))
		return Scalar{Eq(a, b), boolT}, true
	case "ite":
		c := e.boolTerm(e.expr(n.Args[0]))
		a := e.expr(n.Args[1])
		b := e.expr(n.Args[2])
		a, b = e.unify(a, b)
		if ua, ok := a.(UConst); ok {
			a = e.convert(ua, mathIntType)
			b = e.convert(b.(UConst), mathIntType)
		}
		if c.IsTrue() {
			return a, true
		}
		if c.IsFalse() {
			return b, true
		}
		sa, ok1 := a.(Scalar)
		sb, ok2 := b.(Scalar)
		if ok1 && ok2 && sa.T.S != sb.T.S {
			sa = Scalar{e.toIntTerm(sa), mathIntType}
			sb = Scalar{e.toIntTerm(sb), mathIntType}
			return Scalar{Ite(c, sa.T, sb.T), mathIntType}, true
		}
		return mergeVal(c, a, b), true
	case "forall", "exists", "forallx":
		// forallx: like forall, but a constant range is always expanded (up to 1024 instances)
		return e.quantifier(name, n), true
	case "floordiv":
		// floordiv(a, b): floor of a/b for b > 0 (SMT-LIB integer division)
		a := e.toIntTerm(e.derefBig(e.expr(n.Args[0])))
		b := e.toIntTerm(e.derefBig(e.expr(n.Args[1])))
		q := EDiv(a, b)
		if e.knownPositive(b) && e.knownNonNeg(a, 0) {
			e.divFacts(q, a, b)
		}
		return Scalar{q, mathIntType}, true
	case "horner":
		// horner(k, lo, hi, base, body): ((body(lo)*base + body(lo+1))*base + ...) + body(hi-1), built the
		// way a left-to-right accumulation builds it
		if len(n.Args) != 5 {
			unsupported("%s: horner(k, lo, hi, base, body) expects 5 arguments", e.where)
		}
		id, ok := n.Args[0].(*ast.Ident)
		l, okL := e.x.simplifyWithPC(e.st, e.toIntTerm(e.expr(n.Args[1]))).Int64()
		h, okH := e.x.simplifyWithPC(e.st, e.toIntTerm(e.expr(n.Args[2]))).Int64()
		if !ok || !okL || !okH || h-l > 512 {
			unsupported("%s: horner over a non-constant or too large range", e.where)
		}
		base := e.toIntTerm(e.expr(n.Args[3]))
		acc := IntC(0)
		for i := l; i < h; i++ {
			sub := e.sub(map[string]Value{id.Name: Scalar{IntC(i), intT}})
			acc = Add(Mul(acc, base), sub.toIntTerm(sub.expr(n.Args[4])))
		}
		return Scalar{acc, mathIntType}, true
	case "floormod":
		// floormod(a, b): a - b*floor(a/b) for b > 0 (SMT-LIB integer modulus)
		a := e.toIntTerm(e.derefBig(e.expr(n.Args[0])))
		b := e.toIntTerm(e.derefBig(e.expr(n.Args[1])))
		return Scalar{EMod(a, b), mathIntType}, true
	case "sum":
		// sum(k, lo, hi, body): finite sum over a constant range (expanded)
		if len(n.Args) != 4 {
			unsupported("%s: sum(k, lo, hi, body) expects 4 arguments", e.where)
		}
		id, ok := n.Args[0].(*ast.Ident)
		if !ok {
			unsupported("%s: bound variable must be an identifier", e.where)
		}
		l, okL := e.x.simplifyWithPC(e.st, e.toIntTerm(e.expr(n.Args[1]))).Int64()
		h, okH := e.x.simplifyWithPC(e.st, e.toIntTerm(e.expr(n.Args[2]))).Int64()
		if !okL || !okH || h-l > 512 {
			unsupported("%s: sum over a non-constant or too large range", e.where)
		}
		acc := IntC(0)
		for i := l; i < h; i++ {
			sub := e.sub(map[string]Value{id.Name: Scalar{IntC(i), intT}})
			acc = Add(acc, sub.toIntTerm(sub.expr(n.Args[3])))
		}
		return Scalar{acc, mathIntType}, true
	case "pow":
		// pow(b, k): b^k for a constant base; a constant exponent gives a literal, a symbolic one a
		// table lookup over 0..256 (0 outside)
		b, okB := e.toIntTerm(e.expr(n.Args[0])).Int64()
		if !okB {
			unsupported("%s: pow with a non-constant base", e.where)
		}
		kt := e.toIntTerm(e.expr(n.Args[1]))
		if k, ok := kt.Int64(); ok {
			if k < 0 || k > 4096 {
				unsupported("%s: pow exponent out of range", e.where)
			}
			return Scalar{IntB(new(big.Int).Exp(big.NewInt(b), big.NewInt(k), nil)), mathIntType}, true
		}
		res := IntC(0)
		for k := int64(256); k >= 0; k-- {
			res = Ite(Eq(kt, IntC(k)), IntB(new(big.Int).Exp(big.NewInt(b), big.NewInt(k), nil)), res)
		}
		return Scalar{res, mathIntType}, true
	case "isnil":
		v := e.expr(n.Args[0])
		t, ok := e.equalValues(v, NilV{})
		if !ok {
			unsupported("isnil of %T", v)
		}
		return Scalar{t, boolT}, true
	case "is":
		v := e.expr(n.Args[0])
		ev, ok := v.(ErrV)
		if !ok {
			unsupported("%s: is() on %T", e.where, v)
		}
		tv := e.expr(n.Args[1])
		tt, ok := tv.(ErrV)
		if !ok {
			unsupported("%s: is() target %T", e.where, tv)
		}
		return Scalar{And(Not(ev.Nil), Eq(ev.Kind, tt.Kind)), boolT}, true
	case "errtype":
		// errtype(err, TypeName): dynamic type of the error is *TypeName / TypeName
		v := e.expr(n.Args[0])
		ev, ok := v.(ErrV)
		if !ok {
			unsupported("errtype on %T", v)
		}
		id := e.x.errTypeID(exprText(n.Args[1]))
		return Scalar{And(Not(ev.Nil), Eq(ev.Type, IntC(int64(id)))), boolT}, true
	case "off":
		v := e.expr(n.Args[0])
		sv, ok := v.(SliceV)
		if !ok {
			unsupported("off() of %T", v)
		}
		return Scalar{sv.Off, intT}, true
	case "mathint":
		v := e.expr(n.Args[0])
		return Scalar{e.toIntTerm(v), mathIntType}, true
	case "be":
		// be(b): big-endian value of a byte string
		sv, ok := e.expr(n.Args[0]).(SliceV)
		if !ok {
			unsupported("%s: be() of a non-slice", e.where)
		}
		return Scalar{e.x.beValue(e, sv), mathIntType}, true
	case "has_inverse":
		a := e.toIntTerm(e.derefBig(e.expr(n.Args[0])))
		m := e.toIntTerm(e.derefBig(e.expr(n.Args[1])))
		if e.x.fieldModulus != nil {
			return Scalar{Ne(a, IntC(0)), boolT}, true
		}
		return Scalar{App("has_inverse", BoolS, a, m), boolT}, true
	case "cong":
		// cong(a, b): a and b are congruent modulo the field modulus (field-congruence mode only)
		if e.x.fieldModulus == nil {
			unsupported("%s: cong() outside a fieldmode contract", e.where)
		}
		a := e.toIntTerm(e.derefBig(e.expr(n.Args[0])))
		b := e.toIntTerm(e.derefBig(e.expr(n.Args[1])))
		return Scalar{Eq(a, b), boolT}, true
	case "contents":
		// contents(s): the whole backing array of a slice that starts at offset 0 of its allocation
		sv, ok := e.expr(n.Args[0]).(SliceV)
		if !ok {
			unsupported("%s: contents() of a non-slice", e.where)
		}
		arr := e.x.memArr(e.st, sv.Alloc, sv.path)
		return ArrayV{T: arr.T, N: -1, Elem: sv.Elem}, true
	case "errkind":
		ev, ok := e.expr(n.Args[0]).(ErrV)
		if !ok {
			unsupported("%s: errkind() of a non-error", e.where)
		}
		return Scalar{ev.Kind, mathIntType}, true
	case "sameptr":
		// sameptr(p, q): both pointers designate the same allocation (decided statically per path)
		p, ok1 := e.expr(n.Args[0]).(PtrV)
		q, ok2 := e.expr(n.Args[1]).(PtrV)
		if !ok1 || !ok2 {
			unsupported("%s: sameptr of non-pointers", e.where)
		}
		return Scalar{BoolC(p.Alloc == q.Alloc && strings.Join(p.Path, ".") == strings.Join(q.Path, ".")), boolT}, true
	case "mkarray":
		// mkarray(n, k, elem): the n-element array whose k-th element is elem (n a constant)
		cnt, ok := e.toIntTerm(e.expr(n.Args[0])).Int64()
		id, ok2 := n.Args[1].(*ast.Ident)
		if !ok || !ok2 || cnt > 4096 {
			unsupported("%s: mkarray(n, k, elem) needs a constant n and an identifier k", e.where)
		}
		var arr *Term
		var et types.Type
		for i := int64(0); i < cnt; i++ {
			sub := e.sub(map[string]Value{id.Name: Scalar{IntC(i), intT}})
			v, isS := sub.expr(n.Args[2]).(Scalar)
			if !isS {
				unsupported("%s: mkarray element must be a scalar", e.where)
			}
			if arr == nil {
				et = v.Typ
				var z *Term
				switch v.T.S.K {
				case KBV:
					z = BVCi(0, v.T.S.W)
				case KBool:
					z = FalseT
				default:
					z = IntC(0)
				}
				arr = ConstArr(z)
			}
			arr = Store(arr, IntC(i), v.T)
		}
		return ArrayV{T: arr, N: cnt, Elem: et, Typ: types.NewArray(et, cnt)}, true
	case "hashcat":
		return e.x.hashcatForm(e, n), true
	case "blake2b256", "sha256", "sha512":
		outLen := 32
		if name == "sha512" {
			outLen = 64
		}
		return e.x.hashBytes(e, name, outLen, e.expr(n.Args[0]), types.NewArray(byteT, int64(outLen))), true
	case "result":
		return nil, false
	}
	return nil, false
}

type namesBox struct{ m map[string]Value }

var maxInt63 = new(big.Int).Sub(pow2(63), big.NewInt(1))

func (e *Env) quantifier(kind string, n *ast.CallExpr) Value {
	if len(n.Args) != 4 {
		unsupported("%s: %s(k, lo, hi, body) expects 4 arguments", e.where, kind)
	}
	id, ok := n.Args[0].(*ast.Ident)
	if !ok {
		unsupported("%s: bound variable must be an identifier", e.where)
	}
	lo := e.toIntTerm(e.expr(n.Args[1]))
	hi := e.toIntTerm(e.expr(n.Args[2]))
	l, okL := lo.Int64()
	h, okH := hi.Int64()
	if !okL {
		l, okL = e.x.simplifyWithPC(e.st, lo).Int64()
	}
	if !okH {
		h, okH = e.x.simplifyWithPC(e.st, hi).Int64()
	}
	if okL && okH && (h-l <= 128 || (kind == "forallx" && h-l <= 1024)) {
		var cs []*Term
		for i := l; i < h; i++ {
			sub := e.sub(map[string]Value{id.Name: Scalar{IntC(i), intT}})
			cs = append(cs, sub.boolTerm(sub.expr(n.Args[3])))
		}
		if kind == "forall" || kind == "forallx" {
			return Scalar{And(cs...), boolT}
		}
		return Scalar{Or(cs...), boolT}
	}
	k := e.x.fresh(id.Name, IntS)
	sub := e.sub(map[string]Value{id.Name: Scalar{k, intT}})
	if e.knownNonNeg(lo, 0) {
		if sub.nonneg == nil {
			sub.nonneg = map[*Term]bool{}
		}
		sub.nonneg[k] = true
	}
	body := sub.boolTerm(sub.expr(n.Args[3]))
	rng := And(Le(lo, k), Lt(k, hi))
	if kind == "forall" || kind == "forallx" {
		return Scalar{Forall([]*Term{k}, Implies(rng, body)), boolT}
	}
	return Scalar{Exists([]*Term{k}, And(rng, body)), boolT}
}

// ---------------------------------------------------------------- spec functions

func (x *Exec) findSpec(pkg *packages.Package, name string) *SpecFn {
	if pkg != nil {
		if sf, ok := x.U.Specs[pkg.PkgPath+"."+name]; ok {
			return sf
		}
		if r, ok := x.U.SameAs[pkg.PkgPath]; ok {
			if sf, ok := x.U.Specs[r+"."+name]; ok {
				return sf
			}
		}
	}
	return nil
}

func (x *Exec) callSpec(e *Env, sf *SpecFn, n *ast.CallExpr) Value {
	if len(n.Args) != len(sf.Params) {
		unsupported("%s: spec %s expects %d arguments", e.where, sf.Name, len(sf.Params))
	}
	spkg := x.U.Pkgs[sf.PkgPath]
	args := make([]Value, len(n.Args))
	ptypes := make([]types.Type, len(n.Args))
	for i, a := range n.Args {
		t, err := x.U.resolveType(spkg, sf.Params[i].Type)
		if err != nil {
			unsupported("%s: spec %s: %v", sf.Where, sf.Name, err)
		}
		ptypes[i] = t
		v := e.expr(a)
		args[i] = e.coerceSpecArg(v, t)
	}
	rt, err := x.U.resolveType(spkg, sf.Ret)
	if err != nil {
		unsupported("%s: spec %s: %v", sf.Where, sf.Name, err)
	}
	if sf.Rec || sf.Fun || sf.Decl || x.opaque[sf.Name] {
		return x.applySpec(e, sf, spkg, args, ptypes, rt)
	}
	names := map[string]Value{}
	for i, p := range sf.Params {
		names[p.Name] = args[i]
	}
	e2 := &Env{x: x, st: e.st, pkg: spkg, names: names, contract: true, where: sf.Where, oldSt: e.oldSt}
	v := e2.expr(sf.Body)
	return e2.coerceSpecArg(v, rt)
}

func (e *Env) coerceSpecArg(v Value, t types.Type) Value {
	switch s := v.(type) {
	case UConst:
		if b, ok := basicOf(t); ok && b.Info()&types.IsBoolean != 0 {
			return Scalar{BoolC(constant.BoolVal(s.V)), t}
		}
		return e.convert(s, t)
	case Scalar:
		if s.T.S == BoolS {
			return s
		}
		if _, ok := intInfoOf(t); ok {
			if isMathInt(t) {
				return Scalar{e.toIntTerm(s), t}
			}
			if types.Identical(s.Typ.Underlying(), t.Underlying()) && !isMathInt(s.Typ) {
				return Scalar{s.T, t}
			}
			return e.convert(s, t)
		}
	case PtrV:
		// pointer to array passed where an array is expected
		if _, ok := t.Underlying().(*types.Array); ok {
			return navigate(e.x.memCell(e.st, s.Alloc), s.Path)
		}
	case SliceV:
		// a slice passed where a fixed-size array is expected: its first N elements
		if at, ok := t.Underlying().(*types.Array); ok && at.Len() <= 4096 {
			arr := e.x.memArr(e.st, s.Alloc, s.path)
			out := ConstArr(e.zeroElem(at.Elem()))
			for i := int64(0); i < at.Len(); i++ {
				out = Store(out, IntC(i), Select(arr.T, Add(s.Off, IntC(i))))
			}
			return ArrayV{T: out, N: at.Len(), Elem: at.Elem(), Typ: t}
		}
	}
	return v
}

// applySpec: application of a recursive / declared spec function as an SMT function.
func (x *Exec) applySpec(e *Env, sf *SpecFn, spkg *packages.Package, args []Value, ptypes []types.Type, rt types.Type) Value {
	var flat []*Term
	for i, a := range args {
		flat = append(flat, x.flatten(e, a, ptypes[i])...)
	}
	rs := e.R().sortOf(rt)
	if isMathInt(rt) {
		rs = IntS
	}
	if rs == nil {
		// array-valued function: the whole backing array of a byte sequence
		if st, ok := rt.Underlying().(*types.Slice); ok {
			if es := e.R().sortOf(st.Elem()); es != nil {
				name := sf.Name + x.reprTag()
				return ArrayV{T: App(name, ArrS(es), flat...), N: -1, Elem: st.Elem()}
			}
		}
		unsupported("spec %s: result type %s", sf.Name, rt)
	}
	name := sf.Name
	if rs.K == KBV || x.reprTag() != "" {
		name = sf.Name + x.reprTag()
	}
	if !sf.Decl && !x.opaque[sf.Name] {
		x.defineRec(e, sf, spkg, name, ptypes, rt, rs)
	}
	return Scalar{App(name, rs, flat...), rt}
}

func (x *Exec) reprTag() string {
	if x.R == nil || len(x.R.BV) == 0 {
		return ""
	}
	var ks []string
	for k := range x.R.BV {
		ks = append(ks, fmt.Sprint(int(k)))
	}
	sort.Strings(ks)
	return "$bv" + strings.Join(ks, "_")
}

func (x *Exec) flatten(e *Env, v Value, t types.Type) []*Term {
	switch s := v.(type) {
	case Scalar:
		return []*Term{s.T}
	case SliceV:
		arr := x.memArr(e.st, s.Alloc, s.path)
		return []*Term{arr.T, s.Off, s.Len}
	case ArrayV:
		if s.N > 0 && s.N <= 64 {
			var out []*Term
			for i := int64(0); i < s.N; i++ {
				out = append(out, Select(s.T, IntC(i)))
			}
			return out
		}
		return []*Term{s.T}
	case AbsV:
		return []*Term{s.T}
	case UConst:
		return x.flatten(e, e.convert(s, t), t)
	}
	if sv, ok := v.(StructV); ok {
		// a struct passed where an interface is expected: when it only embeds a value of that
		// interface and declares none of the interface's methods itself, it behaves as the embedded value
		if it, ok := t.Underlying().(*types.Interface); ok {
			if st, ok := sv.Typ.Underlying().(*types.Struct); ok {
				for i := 0; i < st.NumFields(); i++ {
					f := st.Field(i)
					if f.Embedded() && types.Identical(f.Type(), t) && !declaresAny(sv.Typ, it) {
						return x.flatten(e, sv.F[f.Name()], t)
					}
				}
			}
		}
	}
	unsupported("spec argument of kind %T", v)
	return nil
}

func (x *Exec) flattenSafe(e *Env, v Value, t types.Type) (out []*Term) {
	defer func() {
		if r := recover(); r != nil {
			if _, ok := r.(*UnsupportedError); ok {
				out = nil
				return
			}
			panic(r)
		}
	}()
	return x.flatten(e, v, t)
}

// declaresAny: does the named type (or its pointer) itself declare a method of the interface?
func declaresAny(t types.Type, it *types.Interface) bool {
	nt, ok := t.(*types.Named)
	if !ok {
		return true
	}
	for i := 0; i < nt.NumMethods(); i++ {
		for j := 0; j < it.NumMethods(); j++ {
			if nt.Method(i).Name() == it.Method(j).Name() {
				return true
			}
		}
	}
	return false
}

func (x *Exec) defineRec(e *Env, sf *SpecFn, spkg *packages.Package, name string, ptypes []types.Type, rt types.Type, rs *Sort) {
	if _, ok := x.defs[name]; ok {
		return
	}
	x.defs[name] = "" // in progress (recursive occurrences become applications)
	st := newState()
	names := map[string]Value{}
	var params []*Term
	for i, p := range sf.Params {
		t := ptypes[i]
		switch u := t.Underlying().(type) {
		case *types.Slice:
			es := e.R().sortOf(u.Elem())
			arr := Var(p.Name+"$arr", ArrS(es))
			off := Var(p.Name+"$off", IntS)
			ln := Var(p.Name+"$len", IntS)
			a := x.alloc()
			st.mem[a] = ArrayV{T: arr, N: -1, Elem: u.Elem()}
			names[p.Name] = SliceV{Alloc: a, Off: off, Len: ln, Cap: ln, Elem: u.Elem(), Nil: FalseT, Typ: t}
			params = append(params, arr, off, ln)
		case *types.Array:
			es := e.R().sortOf(u.Elem())
			if u.Len() > 0 && u.Len() <= 64 {
				arr := ConstArr(e.zeroElem(u.Elem()))
				for i := int64(0); i < u.Len(); i++ {
					pv := Var(fmt.Sprintf("%s$%d", p.Name, i), es)
					params = append(params, pv)
					arr = Store(arr, IntC(i), pv)
				}
				names[p.Name] = ArrayV{T: arr, N: u.Len(), Elem: u.Elem(), Typ: t}
				continue
			}
			arr := Var(p.Name+"$arr", ArrS(es))
			names[p.Name] = ArrayV{T: arr, N: u.Len(), Elem: u.Elem(), Typ: t}
			params = append(params, arr)
		case *types.Basic:
			if u.Info()&types.IsString != 0 {
				arr := Var(p.Name+"$arr", ArrS(e.R().sortOf(byteT)))
				off := Var(p.Name+"$off", IntS)
				ln := Var(p.Name+"$len", IntS)
				a := x.alloc()
				st.mem[a] = ArrayV{T: arr, N: -1, Elem: byteT}
				names[p.Name] = SliceV{Alloc: a, Off: off, Len: ln, Cap: ln, Elem: byteT, IsString: true, Nil: FalseT, Typ: t}
				params = append(params, arr, off, ln)
				continue
			}
			s := e.R().sortOf(t)
			if isMathInt(t) {
				s = IntS
			}
			v := Var(p.Name+"$p", s)
			names[p.Name] = Scalar{v, t}
			params = append(params, v)
		default:
			if a, ok := x.absParam(e, t, p.Name); ok {
				names[p.Name] = a
				params = append(params, a.T)
				continue
			}
			if s := e.R().sortOf(t); s != nil && s.K == KUn {
				// interface or abstract type: one value of its uninterpreted sort
				v := Var(p.Name+"$p", s)
				names[p.Name] = Scalar{v, t}
				params = append(params, v)
				continue
			}
			unsupported("rec spec %s: parameter type %s", sf.Name, t)
		}
	}
	e2 := &Env{x: x, st: st, pkg: spkg, names: names, contract: true, where: sf.Where}
	body := e2.coerceSpecArg(e2.expr(sf.Body), rt)
	bs, ok := body.(Scalar)
	if !ok {
		unsupported("rec spec %s: body is %T", sf.Name, body)
	}
	var sb strings.Builder
	kw := "define-fun-rec"
	if sf.Fun {
		kw = "define-fun"
	}
	fmt.Fprintf(&sb, "(%s %s (", kw, sanitize(name))
	for _, p := range params {
		fmt.Fprintf(&sb, "(%s %s)", sanitize(p.Name), p.S)
	}
	fmt.Fprintf(&sb, ") %s %s)", rs, bs.T)
	x.defs[name] = sb.String()
	x.defOrder = append(x.defOrder, name)
	if x.defTerms == nil {
		x.defTerms = map[string]*Term{}
	}
	x.defTerms[name] = bs.T
	if x.defParams == nil {
		x.defParams = map[string][]*Term{}
		x.defIsRec = map[string]bool{}
	}
	x.defParams[name] = params
	x.defIsRec[name] = !sf.Fun
}

// ---------------------------------------------------------------- function calls

func (x *Exec) contractOf(f *types.Func) *Contract {
	pp, key := funcKey(f)
	if x.C != nil && x.C.Variant != "" {
		// inside a variant (e.g. field-congruence) proof, callees are used through the same variant
		if c, ok := x.U.Contracts[pp+"."+key+"#"+x.C.Variant]; ok {
			return c
		}
	}
	return x.U.Contracts[pp+"."+key]
}

func (x *Exec) callFunc(e *Env, callee *types.Func, recvExpr ast.Expr, n *ast.CallExpr) Value {
	sig := callee.Type().(*types.Signature)
	// receiver and arguments
	var args []Value
	var argExprs []ast.Expr
	if sig.Recv() != nil {
		if recvExpr == nil {
			unsupported("method expression %s", callee.Name())
		}
		if v, ok := x.nativeMethod(e, callee, recvExpr, n); ok {
			return v
		}
		rv := e.expr(recvExpr)
		if hv, isHash := rv.(HashV); isHash {
			if callee.Name() == "Write" || callee.Name() == "Reset" {
				unsupported("%s: %s on a hash object that is not held in a variable", e.where, callee.Name())
			}
			if v, ok := x.hashMethod(e, nil, hv, callee.Name(), n); ok {
				return v
			}
		}
		if _, isIface := sig.Recv().Type().Underlying().(*types.Interface); isIface {
			if conc := concreteTypeOf(rv); conc != nil {
				if m := lookupMethod(conc, callee.Name()); m != nil {
					callee = m
					sig = m.Type().(*types.Signature)
				}
			}
		}
		if ev, isErr := rv.(ErrV); isErr {
			switch callee.Name() {
			case "Unwrap":
				// the wrapped error: same sentinel kind, no longer the outer dynamic type
				return ErrV{Nil: ev.Nil, Kind: ev.Kind, Type: IntC(0), Off: IntC(0)}
			case "Error":
				return x.havoc(e, types.Typ[types.String], "errtext")
			}
		}
		args = append(args, rv)
		argExprs = append(argExprs, recvExpr)
	} else if v, ok := x.nativeFunc(e, callee, n); ok {
		if len(x.frames) == 1 && x.C != nil && len(x.C.Lets) > 0 {
			// ghost bindings to a library function with a built-in model (arguments are pure: evaluating
			// them a second time has no effect)
			if nm, _ := x.callOccurrence(x.top(), n); nm != "" {
				for _, lc := range x.C.Lets {
					if lc.Callee == nm {
						var av []Value
						for _, a := range n.Args {
							av = append(av, e.expr(a))
						}
						x.bindLets(e, n, av, false, nil, false)
						x.bindLets(e, n, av, false, v, true)
						break
					}
				}
			}
		}
		return v
	}
	if sig.Variadic() && !n.Ellipsis.IsValid() {
		np := sig.Params().Len()
		for i := 0; i < np-1; i++ {
			args = append(args, e.assignable(e.expr(n.Args[i]), sig.Params().At(i).Type()))
			argExprs = append(argExprs, n.Args[i])
		}
		vt := sig.Params().At(np - 1).Type().(*types.Slice)
		args = append(args, x.variadicSlice(e, vt, n.Args[np-1:]))
		argExprs = append(argExprs, nil)
	} else {
		if len(n.Args) == 1 && sig.Params().Len() > 1 {
			// f(g()) with multiple results
			tv := e.expr(n.Args[0])
			tup, ok := tv.(TupleV)
			if !ok || len(tup) != sig.Params().Len() {
				unsupported("%s: argument count mismatch calling %s", e.where, callee.Name())
			}
			for i, v := range tup {
				args = append(args, e.assignable(v, sig.Params().At(i).Type()))
				argExprs = append(argExprs, nil)
			}
		} else {
			for i, a := range n.Args {
				args = append(args, e.assignable(e.expr(a), sig.Params().At(i).Type()))
				argExprs = append(argExprs, a)
			}
		}
	}
	c := x.contractOf(callee)
	if c == nil && sig.Recv() != nil {
		if _, isIface := sig.Recv().Type().Underlying().(*types.Interface); isIface {
			if v, ok := x.abstractMethod(e, callee, sig, args); ok {
				return v
			}
		}
	}
	if (e.contract || x.inGlobalInit > 0) && !(c != nil && c.Assumed && !c.Inline) {
		// contract text / initialisers: execute the body
		x.specDepth++
		defer func() { x.specDepth-- }()
		return x.inlineCall(e, callee, c, args, n)
	}
	if c == nil {
		pp, key := funcKey(callee)
		// a function of the repository without a contract (for example a helper introduced by a
		// refactoring) is executed in place: precise, and needs no annotation as long as it stays
		// in the supported subset and does not recurse
		if strings.HasPrefix(pp, "github.com/wollac/iota-crypto-demo") && sig.Recv() == nil || (sig.Recv() != nil && strings.HasPrefix(pp, "github.com/wollac/iota-crypto-demo") && !isIfaceRecv(sig)) {
			rec := false
			for _, f := range x.frames {
				if f.name == shortPkg(pp)+"."+key {
					rec = true
				}
			}
			if cp := x.U.Pkgs[pp]; cp != nil && !rec {
				if fd, _ := findFunc(cp, key); fd != nil && fd.Body != nil {
					return x.inlineCall(e, callee, nil, args, n)
				}
			}
		}
		unsupported("%s: call of %s.%s which has no contract", e.where, pp, key)
	}
	x.bindLets(e, n, args, sig.Recv() != nil, nil, false)
	var res Value
	if c.Inline {
		res = x.inlineCall(e, callee, c, args, n)
	} else {
		res = x.modularCall(e, callee, c, args, n)
	}
	x.bindLets(e, n, args, sig.Recv() != nil, res, true)
	return res
}

func isIfaceRecv(sig *types.Signature) bool {
	_, ok := sig.Recv().Type().Underlying().(*types.Interface)
	return ok
}

func (x *Exec) variadicSlice(e *Env, vt *types.Slice, elems []ast.Expr) Value {
	if e.R().sortOf(vt.Elem()) == nil {
		var vs []Value
		for _, a := range elems {
			vs = append(vs, e.expr(a))
		}
		return SeqV{Elems: vs, Len: IntC(int64(len(vs))), Typ: vt}
	}
	arr := ConstArr(e.zeroElem(vt.Elem()))
	for i, a := range elems {
		v := e.assignable(e.expr(a), vt.Elem()).(Scalar)
		arr = Store(arr, IntC(int64(i)), v.T)
	}
	al := x.alloc()
	e.st.mem[al] = ArrayV{T: arr, N: -1, Elem: vt.Elem()}
	ln := IntC(int64(len(elems)))
	return SliceV{Alloc: al, Off: IntC(0), Len: ln, Cap: ln, Elem: vt.Elem(), Nil: BoolC(len(elems) == 0), Typ: vt}
}

// contractEnv builds the environment in which a callee's contract clauses are evaluated.
func (x *Exec) contractEnv(e *Env, c *Contract, callee *types.Func, args []Value, pre *State) *Env {
	names := map[string]Value{}
	for i, nm := range c.Params {
		if i < len(args) && nm != "_" {
			names[nm] = args[i]
		}
	}
	var cpkg *packages.Package
	if callee != nil && callee.Pkg() != nil {
		cpkg = x.U.Pkgs[callee.Pkg().Path()]
	}
	ce := &Env{x: x, st: e.st, pkg: nil, names: names, contract: true, oldSt: pre, where: c.Where}
	ce.pkg = contractPkgView(cpkg)
	return ce
}

// contractPkgView: contract expressions resolve identifiers by name in the package scope, not through
// types.Info (their AST nodes are not part of the package), so give them a view without TypesInfo.
func contractPkgView(p *packages.Package) *packages.Package {
	if p == nil {
		return nil
	}
	v := *p
	v.TypesInfo = nil
	return &v
}

func (x *Exec) modularCall(e *Env, callee *types.Func, c *Contract, args []Value, n *ast.CallExpr) Value {
	sig := callee.Type().(*types.Signature)
	pp, key := funcKey(callee)
	short := key
	if x.Pkg == nil || pp != x.Pkg.PkgPath {
		short = shortPkg(pp) + "." + key
	}
	if c.Assumed {
		if c.Variant != "" {
			x.trusted[pp+"."+key+" (variant "+c.Variant+": a restatement used only inside "+c.Variant+"-level proofs, declared at "+c.Where+"; the function's other contracts are proved)"] = true
		} else {
			x.trusted[pp+"."+key] = true
		}
	}
	ord := 0
	if n != nil {
		ord = x.nodeOrdOf(x.top(), n)
	}
	pre := e.st.fork()
	// a callee proved once per value of a `specialize NAME = ...` constant: the value for this call is
	// the one for which the preconditions that mention it hold on this path
	if len(c.SpecConsts) > 0 {
		saved := specConstsNow
		defer func() { specConstsNow = saved }()
		for name, vals := range c.SpecConsts {
			if _, bound := saved[name]; bound {
				continue // the caller is specialised on the same constant
			}
			found := false
			for _, v := range vals {
				trial := map[string]int64{}
				for k, w := range specConstsNow {
					trial[k] = w
				}
				trial[name] = v
				keep := specConstsNow
				specConstsNow = trial
				ok := func() (ok bool) {
					defer func() {
						if r := recover(); r != nil {
							ok = false
						}
					}()
					ts := e.st.fork()
					te := x.contractEnv(&Env{x: x, st: ts, pkg: e.pkg, where: e.where}, c, callee, args, ts.fork())
					for _, r := range c.Requires {
						if !x.simplifyWithPC(ts, te.boolTerm(te.expr(r.Expr))).IsTrue() {
							return false
						}
					}
					return true
				}()
				if ok {
					found = true
					break
				}
				specConstsNow = keep
			}
			if !found {
				unsupported("%s: call of %s: cannot determine the value of its specialisation constant %s on this path", e.where, short, name)
			}
		}
	}
	ce := x.contractEnv(e, c, callee, args, pre)
	for i, r := range c.Requires {
		ce.where = r.Line
		t := ce.boolTerm(ce.expr(r.Expr))
		x.addObl("pre", fmt.Sprintf("pre.%s.%d.%d", short, ord, i+1), e.st, t, x.pos(n))
		e.st.assume(t)
	}
	for i, r := range c.PanicsWhen {
		ce.where = r.Line
		t := ce.boolTerm(ce.expr(r.Expr))
		if len(x.frames) == 1 && x.C != nil && len(x.C.PanicsWhen) > 0 && x.inGlobalInit == 0 {
			// the callee's panic propagates: allowed exactly when the caller's contract allows a panic
			var conds []*Term
			pe := x.entryEnv(x.entry)
			for _, pc := range x.C.PanicsWhen {
				pe.where = pc.Line
				conds = append(conds, pe.boolTerm(pe.expr(pc.Expr)))
			}
			x.addObl("panics", fmt.Sprintf("panics.via.%s.%d.%d", short, ord, i+1), e.st, Implies(t, Or(conds...)), x.pos(n))
		} else {
			x.addObl("pre", fmt.Sprintf("nopanic.%s.%d.%d", short, ord, i+1), e.st, Not(t), x.pos(n))
		}
		e.st.assume(Not(t))
	}
	if c.Decreases != nil && callee == x.Obj && len(x.frames) == 1 {
		ce.where = c.Decreases.Line
		m1 := ce.toIntTerm(ce.expr(c.Decreases.Expr))
		ee := x.entryEnv(x.entry)
		m0 := ee.toIntTerm(ee.expr(c.Decreases.Expr))
		x.addObl("dec", fmt.Sprintf("decreases.%d", ord), e.st, And(Le(IntC(0), m1), Lt(m1, m0)), x.pos(n))
	}
	pre = e.st.fork()
	ce.oldSt = pre
	// frame: havoc what the callee may modify
	for _, m := range c.Modifies {
		ce.where = m.Line
		x.havocTarget(ce, m.Expr)
	}
	// results
	var results []Value
	rs := sig.Results()
	for i := 0; i < rs.Len(); i++ {
		nm := fmt.Sprintf("r%d", i)
		if i < len(c.Results) {
			nm = c.Results[i]
		}
		var v Value
		if pn, ok := c.Returns[nm]; ok {
			pv, isPtr := ce.names[pn].(PtrV)
			if !isPtr {
				unsupported("%s: returns %s %s: parameter is not a pointer", c.Where, nm, pn)
			}
			pv.Nil = x.fresh(short+"."+nm+".nil", BoolS)
			v = pv
		} else {
			v = x.havocNamed(e, rs.At(i).Type(), short+"."+nm, hasName(c.BVNames, nm))
		}
		results = append(results, v)
		ce.names[nm] = v
		if hasName(c.Borrowed, nm) {
			if sv, ok := v.(SliceV); ok {
				arr := x.memArr(e.st, sv.Alloc, sv.path)
				e.st.borrowed = append(e.st.borrowed, borrowRec{alloc: sv.Alloc, path: sv.path, arr: arr.T, off: sv.Off, cap: sv.Cap, where: short + "." + nm})
			}
		}
	}
	for _, lc := range c.Lets {
		if t := x.letTypeIn(lc, callee); t != nil {
			ce.names[lc.Name] = x.havoc(e, t, short+".ghost."+lc.Name)
		}
	}
	ce.names["#old"] = namesBox{ce.names}
	for _, en := range c.Ensures {
		ce.where = en.Line
		t := ce.boolTerm(ce.expr(en.Expr))
		e.st.assume(t)
		// functional postcondition `r == term` / `len(r) == term`: use the term itself in the result
		if t.Op == "=" {
			var v, def *Term
			if t.Args[0].Op == "var" && !mentionsVar(t.Args[1], t.Args[0].Name) {
				v, def = t.Args[0], t.Args[1]
			} else if t.Args[1].Op == "var" && !mentionsVar(t.Args[0], t.Args[1].Name) {
				v, def = t.Args[1], t.Args[0]
			}
			if v != nil && strings.HasPrefix(v.Name, short+".") && v.S == def.S {
				m := map[string]*Term{v.Name: def}
				for i := range results {
					results[i] = substValue(results[i], m)
					if i < len(c.Results) {
						ce.names[c.Results[i]] = results[i]
					}
				}
			}
		}
	}
	switch len(results) {
	case 0:
		return TupleV{}
	case 1:
		return results[0]
	}
	return TupleV(results)
}

func shortPkg(p string) string {
	if i := strings.LastIndex(p, "/"); i >= 0 {
		return p[i+1:]
	}
	return p
}

// havocTarget: `dst[lo:hi]`, `dst`, `*p`, `p.f`.
func (x *Exec) havocTarget(ce *Env, t ast.Expr) {
	switch n := t.(type) {
	case *ast.SliceExpr:
		base := ce.expr(n.X)
		if p, ok := base.(PtrV); ok {
			cell := navigate(x.memCell(ce.st, p.Alloc), p.Path)
			arr := cell.(ArrayV)
			base = SliceV{Alloc: p.Alloc, path: p.Path, Off: IntC(0), Len: IntC(arr.N), Cap: IntC(arr.N), Elem: arr.Elem, Nil: FalseT}
		}
		s, ok := base.(SliceV)
		if !ok {
			unsupported("%s: modifies target %T", ce.where, base)
		}
		lo, hi := IntC(0), s.Len
		if n.Low != nil {
			lo = ce.toIntTerm(ce.expr(n.Low))
		}
		if n.High != nil {
			hi = ce.toIntTerm(ce.expr(n.High))
		}
		x.havocRange(ce, s, lo, hi)
	case *ast.StarExpr:
		p, ok := ce.expr(n.X).(PtrV)
		if !ok {
			unsupported("%s: modifies *%s", ce.where, exprText(n.X))
		}
		cell := navigate(x.memCell(ce.st, p.Alloc), p.Path)
		nv := x.havocLike(ce, cell, "mod")
		x.setMem(ce.st, p.Alloc, p.Path, nv)
	case *ast.SelectorExpr:
		rootV := ce.expr(n.X)
		p, ok := rootV.(PtrV)
		if !ok {
			unsupported("%s: modifies %s: base is %T", ce.where, exprText(n), rootV)
		}
		path := append(append([]string{}, p.Path...), n.Sel.Name)
		cell := navigate(x.memCell(ce.st, p.Alloc), path)
		nv := x.havocLike(ce, cell, "mod."+n.Sel.Name)
		x.setMem(ce.st, p.Alloc, path, nv)
	default:
		v := ce.expr(t)
		switch s := v.(type) {
		case SliceV:
			x.havocRange(ce, s, IntC(0), s.Len)
		case PtrV:
			cell := navigate(x.memCell(ce.st, s.Alloc), s.Path)
			x.setMem(ce.st, s.Alloc, s.Path, x.havocLike(ce, cell, "mod"))
		default:
			unsupported("%s: modifies target %T", ce.where, v)
		}
	}
}

func (x *Exec) havocLike(e *Env, cell Value, base string) Value {
	switch c := cell.(type) {
	case ArrayV:
		arr := x.fresh(base, c.T.S)
		e.st.assume(x.elemRangeAxiom(e, arr, c.Elem))
		return ArrayV{T: arr, N: c.N, Elem: c.Elem, Typ: c.Typ}
	case Scalar:
		v := x.fresh(base, c.T.S)
		e.st.assume(e.R().rangeOf(v, c.Typ))
		return Scalar{v, c.Typ}
	case StructV:
		f := map[string]Value{}
		for k, w := range c.F {
			f[k] = x.havocLike(e, w, base+"."+k)
		}
		return StructV{f, c.Typ}
	case AbsV:
		return AbsV{x.fresh(base, c.T.S), c.Typ}
	case ErrV:
		return ErrV{Nil: x.fresh(base+".nil", BoolS), Kind: x.fresh(base+".kind", IntS), Type: x.fresh(base+".type", IntS), Off: x.fresh(base+".off", IntS)}
	case SliceV:
		return x.havoc(e, c.Typ, base)
	case PtrV:
		if c.Typ != nil {
			return x.havoc(e, c.Typ, base)
		}
	}
	unsupported("havoc of %T", cell)
	return nil
}

func (x *Exec) havocRange(e *Env, s SliceV, lo, hi *Term) {
	old := x.memArr(e.st, s.Alloc, s.path)
	na := x.fresh("mod", old.T.S)
	j := x.fresh("j", IntS)
	in := And(Le(Add(s.Off, lo), j), Lt(j, Add(s.Off, hi)))
	e.st.assume(Forall([]*Term{j}, Implies(Not(in), Eq(Select(na, j), Select(old.T, j)))))
	e.st.assume(x.elemRangeAxiom(e, na, old.Elem))
	x.setMem(e.st, s.Alloc, s.path, ArrayV{T: na, N: old.N, Elem: old.Elem, Typ: old.Typ})
}

// inlineCall symbolically executes the callee's body in the caller's state.
func (x *Exec) inlineCall(e *Env, callee *types.Func, c *Contract, args []Value, n *ast.CallExpr) Value {
	if callee.Pkg() == nil {
		unsupported("inline call of %s", callee.Name())
	}
	cp := x.U.Pkgs[callee.Pkg().Path()]
	if cp == nil {
		unsupported("package %s not loaded", callee.Pkg().Path())
	}
	_, key := funcKey(callee)
	fd, _ := findFunc(cp, key)
	if fd == nil || fd.Body == nil {
		unsupported("%s: no body for %s.%s", e.where, callee.Pkg().Path(), key)
	}
	if len(x.frames) > 12 {
		unsupported("inline depth exceeded at %s", key)
	}
	x.inlined[callee.Pkg().Path()+"."+key] = true
	sig := callee.Type().(*types.Signature)
	fr := &frame{pkg: cp, fn: fd, c: c, sig: sig, name: shortPkg(callee.Pkg().Path()) + "." + key}
	// bind parameters
	callerVars := map[types.Object]bool{}
	for o := range e.st.vars {
		callerVars[o] = true
	}
	saved := map[types.Object]Value{}
	bind := func(o types.Object, v Value) {
		if o == nil {
			return
		}
		if old, ok := e.st.vars[o]; ok {
			saved[o] = old
		}
		e.st.vars[o] = v
	}
	ai := 0
	if sig.Recv() != nil {
		if fd.Recv != nil && len(fd.Recv.List) > 0 && len(fd.Recv.List[0].Names) > 0 {
			bind(cp.TypesInfo.Defs[fd.Recv.List[0].Names[0]], args[0])
		}
		ai = 1
	}
	for _, f := range fd.Type.Params.List {
		for _, nm := range f.Names {
			bind(cp.TypesInfo.Defs[nm], args[ai])
			ai++
		}
		if len(f.Names) == 0 {
			ai++
		}
	}
	if fd.Type.Results != nil {
		for _, f := range fd.Type.Results.List {
			for _, nm := range f.Names {
				o := cp.TypesInfo.Defs[nm]
				fr.results = append(fr.results, o)
				if o != nil {
					ez := &Env{x: x, st: e.st, pkg: cp}
					bind(o, ez.zeroValue(o.Type(), true))
				}
			}
		}
	}
	base := e.st.fork()
	for o := range saved {
		_ = o
	}
	work := e.st.fork()
	x.frames = append(x.frames, fr)
	outs := x.execBlock(work, fd.Body.List)
	x.frames = x.frames[:len(x.frames)-1]
	var rets []*State
	for _, o := range outs {
		switch o.kind {
		case oReturn:
			rets = append(rets, o.st)
		case oNormal:
			if sig.Results().Len() > 0 && len(fr.results) == 0 {
				unsupported("missing return in %s", key)
			}
			o.st.res = map[string]Value{}
			for i, ro := range fr.results {
				v, _ := (&Env{x: x, st: o.st}).lookupVar(ro)
				o.st.res[fmt.Sprintf("#%d", i)] = v
			}
			rets = append(rets, o.st)
		case oPanic:
			// obligation already emitted at the panic site
		default:
			unsupported("unexpected control flow leaving %s", key)
		}
	}
	if len(rets) == 0 {
		// every path panics: the rest of the caller is unreachable
		e.st.assume(FalseT)
		var results []Value
		for i := 0; i < sig.Results().Len(); i++ {
			results = append(results, x.havoc(e, sig.Results().At(i).Type(), key+".dead"))
		}
		if len(results) == 1 {
			return results[0]
		}
		return TupleV(results)
	}
	m := mergeStates(base, rets)
	if m == nil {
		unsupported("%s: cannot merge the return paths of inlined %s", e.where, key)
	}
	// adopt merged state, dropping the callee's locals
	res := m.res
	m.res = nil
	for o := range m.vars {
		if _, ok := callerVars[o]; !ok {
			delete(m.vars, o)
		}
	}
	e.st.vars, e.st.mem, e.st.pc = m.vars, m.mem, m.pc
	for o, v := range saved {
		e.st.vars[o] = v
	}
	var results []Value
	for i := 0; i < sig.Results().Len(); i++ {
		results = append(results, res[fmt.Sprintf("#%d", i)])
	}
	switch len(results) {
	case 0:
		return TupleV{}
	case 1:
		return results[0]
	}
	return TupleV(results)
}

func termMentionsApp(t *Term, name string) bool {
	return mentionsApp(t, name, map[*Term]bool{})
}

func mentionsApp(t *Term, name string, memo map[*Term]bool) bool {
	if v, ok := memo[t]; ok {
		return v
	}
	r := t.Op == "app" && t.Name == name
	if !r {
		for _, a := range t.Args {
			if mentionsApp(a, name, memo) {
				r = true
				break
			}
		}
	}
	memo[t] = r
	return r
}

func mentionsVar(t *Term, name string) bool {
	seen := map[*Term]bool{}
	var walk func(t *Term) bool
	walk = func(t *Term) bool {
		if seen[t] {
			return false
		}
		seen[t] = true
		if t.Op == "var" && t.Name == name {
			return true
		}
		for _, a := range t.Args {
			if walk(a) {
				return true
			}
		}
		return false
	}
	return walk(t)
}

func concreteTypeOf(v Value) types.Type {
	switch c := v.(type) {
	case StructV:
		return c.Typ
	case PtrV:
		return c.Typ
	case SliceV:
		return c.Typ
	case Scalar:
		if _, ok := c.Typ.(*types.Named); ok {
			return c.Typ
		}
	}
	return nil
}

func lookupMethod(t types.Type, name string) *types.Func {
	for _, tt := range []types.Type{t, types.NewPointer(t)} {
		ms := types.NewMethodSet(tt)
		for i := 0; i < ms.Len(); i++ {
			if f, ok := ms.At(i).Obj().(*types.Func); ok && f.Name() == name {
				return f
			}
		}
	}
	return nil
}

// abstractMethod: a method of an interface value without contract is an uninterpreted function of
// the receiver (and scalar arguments) when its results are scalars.
func (x *Exec) abstractMethod(e *Env, callee *types.Func, sig *types.Signature, args []Value) (Value, bool) {
	var recv *Term
	switch r := args[0].(type) {
	case AbsV:
		recv = r.T
	case Scalar:
		recv = r.T
	default:
		return nil, false
	}
	ts := []*Term{recv}
	for _, a := range args[1:] {
		s, ok := a.(Scalar)
		if !ok {
			return nil, false
		}
		ts = append(ts, s.T)
	}
	if sig.Results().Len() != 1 {
		return nil, false
	}
	rt := sig.Results().At(0).Type()
	rs := e.R().sortOf(rt)
	if rs == nil {
		return nil, false
	}
	_, key := funcKey(callee)
	v := App("method$"+key, rs, ts...)
	e.st.assume(e.R().rangeOf(v, rt))
	x.trusted["interface method "+key+" as a function of its receiver"] = true
	return Scalar{v, rt}, true
}

// derefBig: a *big.Int in a contract expression denotes its integer value.
func (e *Env) derefBig(v Value) Value {
	if p, ok := v.(PtrV); ok {
		if c, ok := navigate(e.x.memCell(e.st, p.Alloc), p.Path).(Scalar); ok {
			return c
		}
	}
	return v
}
