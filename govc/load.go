package main

// Loading of /repo packages (typed AST) and of the contract files.

import (
	"fmt"
	"go/ast"
	"go/parser"
	"go/printer"
	"go/token"
	"go/types"
	"os"
	"path/filepath"
	"sort"
	"strings"

	"golang.org/x/tools/go/packages"
)

type IHSub struct {
	Name string
	Expr ast.Expr
	Line string
}

type Clause struct {
	Text string
	Expr ast.Expr
	Line string // file:line of the contract text
}

type Contract struct {
	PkgPath  string
	Key      string // Func or Recv.Method
	Header   *ast.FuncDecl
	Params   []string // names by position (receiver first if any)
	Results  []string
	Requires []Clause
	Ensures  []Clause
	Modifies []Clause
	PanicsNever bool
	PanicsWhen  []Clause
	LoopInv  map[string][]Clause
	LoopDec  map[string]Clause
	LoopMod  map[string][]Clause // extra havoc targets
	ReprBV   []string
	Inline   bool
	Assumed  bool // dependency contract, never proved
	Props    []string
	Opaque   []string // spec functions to keep uninterpreted here
	Unroll   map[string]bool
	Peel     map[string]bool // loops whose first iteration is executed before the invariant applies
	Notes    []string
	Where    string
	Text     []string // raw lines (hash for the ledger)
	Cover    bool
	NoFrame  bool
	Prefix   bool // verify only the straight-line prefix of the body (see the prefix clause)
	SeqLens  map[string]string // parameter -> length (number or spec constant)
	Borrowed []string // results whose memory belongs to the callee's side (must not be written by the caller)
	BVNames  []string
	Theories []string          // axiom theories assumed in this function's obligations
	Returns  map[string]string // result name -> parameter name whose pointer is returned
	IntNames []string // variables of a bit-vector type that are nevertheless kept as integers (counters, indices)
	Lets     []LetClause
	Uses     []Clause
	Checks   []Clause // intermediate assertions at the return points (local scope)
	LoopUses map[string][]Clause
	Specialize map[string][]string
	SpecConsts map[string][]int64 // named constants with a finite list of values (one verification each)
	Decreases  *Clause            // termination measure for recursive calls
	FieldMode  *Clause            // field-congruence mode: this modulus is read as 0, arithmetic over the rationals
	Variant    string
	shadowed   *Contract // the default contract this one displaced until its `variant` clause was read
	dupErr     error
	Inherited string // contract inherited from this (identical) repository package
	LoopAssert map[string][]Clause // ghost assertions at the end of a loop body (proved, then assumed)
	LoopExitAssert map[string][]Clause // the same at `break` exits of the loop
}

// LetClause: `let NAME = arg(CALLEE, occurrence, index)` or `ret(CALLEE, occurrence, index)` binds a
// ghost name to a value flowing through a call made by the function.
type LetClause struct {
	Name   string
	Kind   string
	Callee string
	Occ    int
	Idx    int
	Where  string
}

type SpecParam struct {
	Name string
	Type ast.Expr
}

type SpecFn struct {
	PkgPath string
	Name    string
	Params  []SpecParam
	Ret     ast.Expr
	Body    ast.Expr
	Rec     bool       // recursive: SMT define-fun-rec / axiomatised
	Decl    bool       // declared only (uninterpreted), axioms elsewhere
	Fun     bool       // non-recursive SMT define-fun (not expanded by govc)
	Where   string
	Text    string
}

type Lemma struct {
	PkgPath  string
	Name     string
	Params   []SpecParam
	Requires []Clause
	Ensures  []Clause
	ReprBV   []string
	Props    []string
	Where    string
	Text     []string
	Axiom    bool // assumed, listed in the trusted base
	Induct   string
	IHSubst  []IHSub
	Uses     []Clause
	Theory   string // axioms: the theory they belong to (added to functions that declare `theory <name>`)
}

type Universe struct {
	AlsoTags map[string]string // package path -> extra build tag for a second verification pass
	Fset      *token.FileSet
	Pkgs      map[string]*packages.Package // by path, including deps
	Root      []*packages.Package
	Contracts map[string]*Contract // pkgpath + "." + key
	Specs     map[string]*SpecFn   // pkgpath + "." + name
	Lemmas    []*Lemma
	RepoDir   string
	ModPath   string
	HookFiles []string
	SameAs    map[string]string // dependency package -> repository package with identical code
	Notes     []string
	AsmModels map[string]string // generated Go models of assembly routines (overlay path -> source)
}

func loadUniverse(repo string, extraTags string, patterns ...string) (*Universe, error) {
	tags := "verif"
	if extraTags != "" {
		tags += "," + extraTags
	}
	fset := token.NewFileSet()
	cfg := &packages.Config{
		Mode: packages.NeedName | packages.NeedFiles | packages.NeedSyntax | packages.NeedTypes |
			packages.NeedTypesInfo | packages.NeedImports | packages.NeedDeps | packages.NeedCompiledGoFiles,
		Dir:        repo,
		Fset:       fset,
		BuildFlags: []string{"-tags=" + tags},
		Env:        append(os.Environ(), "GOFLAGS=-mod=mod", "GOPROXY=off", "GOSUMDB=off", "GOTOOLCHAIN=local"),
	}
	if len(patterns) == 0 {
		patterns = []string{"./pkg/..."}
	}
	// assembly routines become generated Go model functions through the loader's overlay
	asmSrc := map[string]string{}
	var asmNotes []string
	filepath.Walk(filepath.Join(repo, "pkg"), func(p string, info os.FileInfo, err error) error {
		if err != nil || !info.IsDir() {
			return nil
		}
		src, notes := asmModels(p)
		asmNotes = append(asmNotes, notes...)
		if src != "" {
			if cfg.Overlay == nil {
				cfg.Overlay = map[string][]byte{}
			}
			fn := filepath.Join(p, "zz_govc_asm_model_verif.go")
			cfg.Overlay[fn] = []byte(src)
			asmSrc[fn] = src
		}
		return nil
	})
	pkgs, err := packages.Load(cfg, patterns...)
	if err != nil {
		return nil, err
	}
	u := &Universe{Fset: fset, Pkgs: map[string]*packages.Package{}, Root: pkgs,
		Contracts: map[string]*Contract{}, Specs: map[string]*SpecFn{}, RepoDir: repo}
	u.AsmModels = asmSrc
	u.Notes = append(u.Notes, asmNotes...)
	var visit func(p *packages.Package)
	visit = func(p *packages.Package) {
		if _, ok := u.Pkgs[p.PkgPath]; ok {
			return
		}
		u.Pkgs[p.PkgPath] = p
		for _, q := range p.Imports {
			visit(q)
		}
	}
	for _, p := range pkgs {
		if len(p.Errors) > 0 {
			return nil, fmt.Errorf("package %s: %v", p.PkgPath, p.Errors[0])
		}
		visit(p)
	}
	// contract files in the repo: zz_contracts_verif.go
	for _, p := range pkgs {
		for _, f := range p.GoFiles {
			if strings.HasSuffix(f, "_verif.go") && strings.Contains(filepath.Base(f), "contracts") {
				if err := u.parseContractFile(f, p.PkgPath, false); err != nil {
					return nil, err
				}
				u.HookFiles = append(u.HookFiles, f)
			}
		}
	}
	return u, nil
}

// loadDeps parses every *.spec under dir (assumed contracts of dependencies).
func (u *Universe) loadDeps(dir string) error {
	ents, err := os.ReadDir(dir)
	if err != nil {
		return err
	}
	var names []string
	for _, e := range ents {
		if strings.HasSuffix(e.Name(), ".spec") {
			names = append(names, e.Name())
		}
	}
	sort.Strings(names)
	for _, n := range names {
		if err := u.parseContractFile(filepath.Join(dir, n), "", true); err != nil {
			return err
		}
	}
	return nil
}

var clauseWords = map[string]bool{"requires": true, "ensures": true, "modifies": true, "panics": true,
	"loop": true, "repr": true, "inline": true, "props": true, "opaque": true, "unroll": true, "note": true, "induct": true, "ihsubst": true, "cover": true,
	"bv": true, "intvar": true, "theory": true, "returns": true, "decreases": true, "fieldmode": true, "variant": true, "let": true, "use": true, "check": true, "seqlen": true, "prefix": true, "noframe": true, "borrowed": true, "specialize": true}

func (u *Universe) parseContractFile(path, pkgPath string, deps bool) error {
	data, err := os.ReadFile(path)
	if err != nil {
		return err
	}
	var curC *Contract
	var curL *Lemma
	var defaultProps []string
	var lastClause *string // pointer to text being continued
	type pending struct {
		kind string
		loop string
		text *string
		line string
	}
	var pend []pending
	var pendingDup *Contract
	flush := func() error {
		if pendingDup != nil {
			// a second contract of a function that did not declare itself a variant
			err := pendingDup.dupErr
			pendingDup = nil
			return err
		}
		for _, p := range pend {
			txt := strings.TrimSpace(*p.text)
			ex, err := parser.ParseExpr(txt)
			if err != nil {
				return fmt.Errorf("%s: cannot parse %q: %v", p.line, txt, err)
			}
			cl := Clause{Text: txt, Expr: ex, Line: p.line}
			switch {
			case curC != nil:
				switch p.kind {
				case "requires":
					curC.Requires = append(curC.Requires, cl)
				case "ensures":
					curC.Ensures = append(curC.Ensures, cl)
				case "modifies":
					curC.Modifies = append(curC.Modifies, cl)
				case "panicswhen":
					curC.PanicsWhen = append(curC.PanicsWhen, cl)
				case "inv":
					curC.LoopInv[p.loop] = append(curC.LoopInv[p.loop], cl)
				case "dec":
					curC.LoopDec[p.loop] = cl
				case "loopmod":
					curC.LoopMod[p.loop] = append(curC.LoopMod[p.loop], cl)
				case "decreases":
					cc := cl
					curC.Decreases = &cc
				case "fieldmode":
					cc := cl
					curC.FieldMode = &cc
				case "use":
					curC.Uses = append(curC.Uses, cl)
				case "check":
					curC.Checks = append(curC.Checks, cl)
				case "loopuse":
					curC.LoopUses[p.loop] = append(curC.LoopUses[p.loop], cl)
				case "loopexitassert":
					if curC.LoopExitAssert == nil {
						curC.LoopExitAssert = map[string][]Clause{}
					}
					curC.LoopExitAssert[p.loop] = append(curC.LoopExitAssert[p.loop], cl)
				case "loopassert":
					if curC.LoopAssert == nil {
						curC.LoopAssert = map[string][]Clause{}
					}
					curC.LoopAssert[p.loop] = append(curC.LoopAssert[p.loop], cl)
				}
			case curL != nil:
				switch p.kind {
				case "requires":
					curL.Requires = append(curL.Requires, cl)
				case "ensures":
					curL.Ensures = append(curL.Ensures, cl)
				case "use":
					curL.Uses = append(curL.Uses, cl)
				}
			}
		}
		pend = nil
		lastClause = nil
		return nil
	}
	lines := strings.Split(string(data), "\n")
	for ln, raw := range lines {
		where := fmt.Sprintf("%s:%d", path, ln+1)
		line := raw
		if !deps {
			t := strings.TrimSpace(raw)
			if !strings.HasPrefix(t, "//@") {
				continue
			}
			line = strings.TrimPrefix(t, "//@")
		} else {
			t := strings.TrimSpace(raw)
			if strings.HasPrefix(t, "#") || t == "" {
				continue
			}
			if strings.HasPrefix(t, "//@") {
				line = strings.TrimPrefix(t, "//@")
			}
		}
		// strip trailing comment " // ..."
		if i := strings.Index(line, " //"); i >= 0 {
			line = line[:i]
		}
		t := strings.TrimSpace(line)
		if t == "" {
			continue
		}
		word := t
		rest := ""
		if i := strings.IndexAny(t, " \t"); i >= 0 {
			word, rest = t[:i], strings.TrimSpace(t[i+1:])
		}
		if curC != nil {
			curC.Text = append(curC.Text, t)
		}
		if curL != nil {
			curL.Text = append(curL.Text, t)
		}
		switch word {
		case "package":
			if err := flush(); err != nil {
				return err
			}
			curC, curL = nil, nil
			pkgPath = rest
			continue
		case "abstract":
			f := strings.Fields(rest)
			if len(f) != 2 {
				return fmt.Errorf("%s: abstract <pkgpath.Type> <Sort>", where)
			}
			abstractTypes[f[0]] = f[1]
			continue
		case "sameas":
			// the functions of this dependency package that are textually identical to the named
			// repository package inherit that package's (proved) contracts
			if u.SameAs == nil {
				u.SameAs = map[string]string{}
			}
			u.SameAs[pkgPath] = rest
			continue
		case "alsotags":
			// alsotags T: the functions of this package are verified a second time with build tag T
			// (files selected by the other side of a build constraint, e.g. the portable fallback)
			if u.AlsoTags == nil {
				u.AlsoTags = map[string]string{}
			}
			u.AlsoTags[pkgPath] = strings.TrimSpace(rest)
			continue
		case "props":
			if curC == nil && curL == nil {
				defaultProps = strings.Fields(rest)
				continue
			}
			if curC != nil {
				curC.Props = strings.Fields(rest)
			} else {
				curL.Props = strings.Fields(rest)
			}
			continue
		case "func", "assume", "prove":
			if err := flush(); err != nil {
				return err
			}
			curL = nil
			hdr := t
			assumed := deps
			if word == "assume" {
				hdr = rest
				assumed = true
			}
			if word == "prove" {
				hdr = rest
				assumed = false
			}
			fd, err := parseFuncHeader(hdr)
			if err != nil {
				return fmt.Errorf("%s: %v", where, err)
			}
			c := &Contract{PkgPath: pkgPath, Header: fd, Assumed: assumed, LoopInv: map[string][]Clause{},
				LoopDec: map[string]Clause{}, LoopMod: map[string][]Clause{}, Props: defaultProps, Where: where, Unroll: map[string]bool{}, LoopUses: map[string][]Clause{}}
			c.Text = []string{t}
			c.Key = fd.Name.Name
			if fd.Recv != nil && len(fd.Recv.List) > 0 {
				rt := fd.Recv.List[0].Type
				if st, ok := rt.(*ast.StarExpr); ok {
					rt = st.X
				}
				c.Key = exprString(rt) + "." + fd.Name.Name
				nm := "_"
				if len(fd.Recv.List[0].Names) > 0 {
					nm = fd.Recv.List[0].Names[0].Name
				}
				c.Params = append(c.Params, nm)
			}
			for _, f := range fd.Type.Params.List {
				if len(f.Names) == 0 {
					c.Params = append(c.Params, "_")
				}
				for _, n := range f.Names {
					c.Params = append(c.Params, n.Name)
				}
			}
			if fd.Type.Results != nil {
				for i, f := range fd.Type.Results.List {
					if len(f.Names) == 0 {
						c.Results = append(c.Results, fmt.Sprintf("r%d", i))
					}
					for _, n := range f.Names {
						c.Results = append(c.Results, n.Name)
					}
				}
			}
			if prev, dup := u.Contracts[pkgPath+"."+c.Key]; dup {
				// allowed when this one turns out to be a variant (its `variant` clause restores prev)
				c.shadowed = prev
				c.dupErr = fmt.Errorf("%s: duplicate contract for %s (also %s)", where, c.Key, prev.Where)
				pendingDup = c
			}
			u.Contracts[pkgPath+"."+c.Key] = c
			curC = c
			continue
		case "spec", "rec", "decl", "fun":
			if err := flush(); err != nil {
				return err
			}
			curC, curL = nil, nil
			sf, err := parseSpecFn(rest, word)
			if err != nil {
				return fmt.Errorf("%s: %v", where, err)
			}
			sf.PkgPath = pkgPath
			sf.Where = where
			sf.Text = t
			if _, dup := u.Specs[pkgPath+"."+sf.Name]; dup {
				return fmt.Errorf("%s: duplicate spec %s", where, sf.Name)
			}
			u.Specs[pkgPath+"."+sf.Name] = sf
			lastClause = nil
			continue
		case "lemma", "axiom":
			if err := flush(); err != nil {
				return err
			}
			curC = nil
			fd, err := parseFuncHeader("func " + rest)
			if err != nil {
				return fmt.Errorf("%s: %v", where, err)
			}
			l := &Lemma{PkgPath: pkgPath, Name: fd.Name.Name, Props: defaultProps, Where: where, Axiom: word == "axiom"}
			l.Text = []string{t}
			for _, f := range fd.Type.Params.List {
				for _, n := range f.Names {
					l.Params = append(l.Params, SpecParam{n.Name, f.Type})
				}
			}
			u.Lemmas = append(u.Lemmas, l)
			curL = l
			continue
		}
		if curC == nil && curL == nil {
			return fmt.Errorf("%s: clause outside of a block: %q", where, t)
		}
		if !clauseWords[word] {
			// continuation
			if lastClause == nil {
				return fmt.Errorf("%s: unexpected line %q", where, t)
			}
			*lastClause += " " + t
			continue
		}
		switch word {
		case "decreases":
			s := rest
			pend = append(pend, pending{kind: "decreases", text: &s, line: where})
			lastClause = pend[len(pend)-1].text
		case "fieldmode":
			s := rest
			pend = append(pend, pending{kind: "fieldmode", text: &s, line: where})
			lastClause = pend[len(pend)-1].text
		case "variant":
			// a second contract of the same function, verified separately and never used at call sites
			old := pkgPath + "." + curC.Key
			if u.Contracts[old] == curC {
				delete(u.Contracts, old)
				if curC.shadowed != nil {
					u.Contracts[old] = curC.shadowed
					curC.shadowed, curC.dupErr = nil, nil
					if pendingDup == curC {
						pendingDup = nil
					}
				}
			}
			curC.Variant = rest
			u.Contracts[old+"#"+rest] = curC
			lastClause = nil
		case "requires", "ensures", "modifies":
			s := rest
			pend = append(pend, pending{kind: word, text: &s, line: where})
			lastClause = pend[len(pend)-1].text
		case "panics":
			if rest == "never" {
				if curC != nil {
					curC.PanicsNever = true
				}
				lastClause = nil
			} else if strings.HasPrefix(rest, "when ") {
				s := strings.TrimPrefix(rest, "when ")
				pend = append(pend, pending{kind: "panicswhen", text: &s, line: where})
				lastClause = pend[len(pend)-1].text
			} else {
				return fmt.Errorf("%s: bad panics clause", where)
			}
		case "loop":
			f := strings.Fields(rest)
			if len(f) < 2 {
				return fmt.Errorf("%s: bad loop clause", where)
			}
			id := f[0]
			kind := f[1]
			body := strings.TrimSpace(strings.TrimPrefix(strings.TrimSpace(strings.TrimPrefix(rest, id)), kind))
			switch kind {
			case "invariant":
				s := body
				pend = append(pend, pending{kind: "inv", loop: id, text: &s, line: where})
				lastClause = pend[len(pend)-1].text
			case "decreases":
				s := body
				pend = append(pend, pending{kind: "dec", loop: id, text: &s, line: where})
				lastClause = pend[len(pend)-1].text
			case "modifies":
				s := body
				pend = append(pend, pending{kind: "loopmod", loop: id, text: &s, line: where})
				lastClause = pend[len(pend)-1].text
			case "peel":
				if curC.Peel == nil {
					curC.Peel = map[string]bool{}
				}
				curC.Peel[id] = true
				lastClause = nil
			case "unroll":
				curC.Unroll[id] = true
				lastClause = nil
			case "use":
				s := body
				pend = append(pend, pending{kind: "loopuse", loop: id, text: &s, line: where})
				lastClause = pend[len(pend)-1].text
			case "assert":
				s := body
				pend = append(pend, pending{kind: "loopassert", loop: id, text: &s, line: where})
				lastClause = pend[len(pend)-1].text
			case "exitassert":
				s := body
				pend = append(pend, pending{kind: "loopexitassert", loop: id, text: &s, line: where})
				lastClause = pend[len(pend)-1].text
			default:
				return fmt.Errorf("%s: bad loop clause kind %q", where, kind)
			}
		case "repr":
			if curC != nil {
				curC.ReprBV = append(curC.ReprBV, strings.Fields(rest)...)
			} else {
				curL.ReprBV = append(curL.ReprBV, strings.Fields(rest)...)
			}
			lastClause = nil
		case "inline":
			curC.Inline = true
			lastClause = nil
		case "noframe":
			curC.NoFrame = true
			lastClause = nil
		case "borrowed":
			curC.Borrowed = append(curC.Borrowed, strings.Fields(rest)...)
			lastClause = nil
		case "prefix":
			// prefix: only the statements of the body up to the first one outside the supported subset
			// are executed (goroutine launches are skipped, what they capture becomes unknown); the
			// `check` clauses are proved at that point, postconditions are not considered
			curC.Prefix = true
			lastClause = nil
		case "seqlen":
			// seqlen PARAM N|CONST: a slice-of-slices parameter with exactly that many elements
			f := strings.Fields(rest)
			if len(f) != 2 {
				return fmt.Errorf("%s: bad seqlen clause", where)
			}
			if curC.SeqLens == nil {
				curC.SeqLens = map[string]string{}
			}
			curC.SeqLens[f[0]] = f[1]
			lastClause = nil
		case "specialize":
			f := strings.Fields(rest)
			if len(f) < 2 {
				return fmt.Errorf("%s: bad specialize clause", where)
			}
			if len(f) >= 3 && f[1] == "=" {
				// specialize NAME = v1 v2 ...: one verification per value of the named constant
				if curC.SpecConsts == nil {
					curC.SpecConsts = map[string][]int64{}
				}
				for _, v := range f[2:] {
					var k int64
					fmt.Sscan(v, &k)
					curC.SpecConsts[f[0]] = append(curC.SpecConsts[f[0]], k)
				}
				lastClause = nil
				break
			}
			if curC.Specialize == nil {
				curC.Specialize = map[string][]string{}
			}
			curC.Specialize[f[0]] = f[1:]
			lastClause = nil
		case "bv":
			curC.BVNames = append(curC.BVNames, strings.Fields(rest)...)
			lastClause = nil
		case "intvar":
			curC.IntNames = append(curC.IntNames, strings.Fields(rest)...)
			lastClause = nil
		case "theory":
			if curC != nil {
				curC.Theories = append(curC.Theories, strings.Fields(rest)...)
			} else {
				curL.Theory = rest
			}
			lastClause = nil
		case "returns":
			// returns R P: result R is the pointer argument P (e.g. methods returning their receiver)
			f := strings.Fields(rest)
			if len(f) != 2 || curC == nil {
				return fmt.Errorf("%s: returns <result> <parameter>", where)
			}
			if curC.Returns == nil {
				curC.Returns = map[string]string{}
			}
			curC.Returns[f[0]] = f[1]
			lastClause = nil
		case "use":
			s := rest
			pend = append(pend, pending{kind: "use", text: &s, line: where})
			lastClause = pend[len(pend)-1].text
		case "check":
			// check EXPR: an intermediate assertion over the local variables at every return point
			// (after the use clauses, before the postconditions): proved, then assumed
			s := rest
			pend = append(pend, pending{kind: "check", text: &s, line: where})
			lastClause = pend[len(pend)-1].text
		case "let":
			// let NAME = arg(CALLEE, occ, idx)
			var lc LetClause
			eq := strings.Index(rest, "=")
			if eq < 0 {
				return fmt.Errorf("%s: bad let clause", where)
			}
			lc.Name = strings.TrimSpace(rest[:eq])
			rhs := strings.TrimSpace(rest[eq+1:])
			op := strings.Index(rhs, "(")
			if op < 0 || !strings.HasSuffix(rhs, ")") {
				return fmt.Errorf("%s: bad let clause", where)
			}
			lc.Kind = rhs[:op]
			parts := strings.Split(rhs[op+1:len(rhs)-1], ",")
			if len(parts) < 2 {
				return fmt.Errorf("%s: bad let clause", where)
			}
			lc.Callee = strings.TrimSpace(parts[0])
			fmt.Sscan(strings.TrimSpace(parts[1]), &lc.Occ)
			if len(parts) > 2 {
				fmt.Sscan(strings.TrimSpace(parts[2]), &lc.Idx)
			}
			lc.Where = where
			curC.Lets = append(curC.Lets, lc)
			lastClause = nil
		case "cover":
			curC.Cover = true
			lastClause = nil
		case "opaque":
			curC.Opaque = append(curC.Opaque, strings.Fields(rest)...)
			lastClause = nil
		case "note":
			if curC != nil {
				curC.Notes = append(curC.Notes, rest)
			}
			lastClause = nil
		case "induct":
			if curL != nil {
				curL.Induct = rest
			}
			lastClause = nil
		case "ihsubst":
			// ihsubst NAME = EXPR: the induction hypothesis (at n-1) is taken at this value of the other
			// parameter NAME (any instance of the statement at n-1 may be assumed)
			if curL != nil {
				eq := strings.Index(rest, "=")
				if eq < 0 {
					return fmt.Errorf("%s: bad ihsubst clause", where)
				}
				ex, err := parser.ParseExpr(strings.TrimSpace(rest[eq+1:]))
				if err != nil {
					return fmt.Errorf("%s: %v", where, err)
				}
				curL.IHSubst = append(curL.IHSubst, IHSub{Name: strings.TrimSpace(rest[:eq]), Expr: ex, Line: where})
			}
			lastClause = nil
		}
	}
	return flush()
}

func parseFuncHeader(h string) (*ast.FuncDecl, error) {
	src := "package p\n" + h + " {}\n"
	fs := token.NewFileSet()
	f, err := parser.ParseFile(fs, "hdr.go", src, 0)
	if err != nil {
		return nil, fmt.Errorf("bad header %q: %v", h, err)
	}
	for _, d := range f.Decls {
		if fd, ok := d.(*ast.FuncDecl); ok {
			return fd, nil
		}
	}
	return nil, fmt.Errorf("no func in header %q", h)
}

// parseSpecFn: "name(a int8, b []byte) int = expr"
func parseSpecFn(s string, word string) (*SpecFn, error) {
	eq := -1
	depth := 0
	for i := 0; i < len(s); i++ {
		switch s[i] {
		case '(', '[':
			depth++
		case ')', ']':
			depth--
		case '=':
			if depth == 0 && (i+1 >= len(s) || s[i+1] != '=') && (i == 0 || (s[i-1] != '=' && s[i-1] != '!' && s[i-1] != '<' && s[i-1] != '>')) {
				eq = i
			}
		}
		if eq >= 0 {
			break
		}
	}
	hdr := s
	body := ""
	if eq >= 0 {
		hdr = strings.TrimSpace(s[:eq])
		body = strings.TrimSpace(s[eq+1:])
	}
	fd, err := parseFuncHeader("func " + hdr)
	if err != nil {
		return nil, err
	}
	sf := &SpecFn{Name: fd.Name.Name, Rec: word == "rec", Decl: word == "decl", Fun: word == "fun"}
	for _, f := range fd.Type.Params.List {
		for _, n := range f.Names {
			sf.Params = append(sf.Params, SpecParam{n.Name, f.Type})
		}
	}
	if fd.Type.Results != nil && len(fd.Type.Results.List) == 1 {
		sf.Ret = fd.Type.Results.List[0].Type
	} else {
		return nil, fmt.Errorf("spec %s needs exactly one result type", sf.Name)
	}
	if body != "" {
		ex, err := parser.ParseExpr(body)
		if err != nil {
			return nil, fmt.Errorf("spec %s body: %v", sf.Name, err)
		}
		sf.Body = ex
	} else if !sf.Decl {
		return nil, fmt.Errorf("spec %s has no body", sf.Name)
	}
	return sf, nil
}

func exprString(e ast.Expr) string {
	switch x := e.(type) {
	case *ast.Ident:
		return x.Name
	case *ast.SelectorExpr:
		return exprString(x.X) + "." + x.Sel.Name
	case *ast.StarExpr:
		return "*" + exprString(x.X)
	}
	return fmt.Sprintf("%T", e)
}

// findFunc locates the declaration of a function/method in a loaded package.
func findFunc(p *packages.Package, key string) (*ast.FuncDecl, *types.Func) {
	recv, name := "", key
	if i := strings.Index(key, "."); i >= 0 {
		recv, name = key[:i], key[i+1:]
	}
	for _, f := range p.Syntax {
		for _, d := range f.Decls {
			fd, ok := d.(*ast.FuncDecl)
			if !ok || fd.Name.Name != name {
				continue
			}
			r := ""
			if fd.Recv != nil && len(fd.Recv.List) > 0 {
				rt := fd.Recv.List[0].Type
				if st, ok := rt.(*ast.StarExpr); ok {
					rt = st.X
				}
				r = exprString(rt)
			}
			if r != recv {
				continue
			}
			obj, _ := p.TypesInfo.Defs[fd.Name].(*types.Func)
			return fd, obj
		}
	}
	return nil, nil
}

// funcKey: contract key of a types.Func.
func funcKey(f *types.Func) (pkgPath, key string) {
	if f.Pkg() != nil {
		pkgPath = f.Pkg().Path()
	}
	key = f.Name()
	sig := f.Type().(*types.Signature)
	if r := sig.Recv(); r != nil {
		t := r.Type()
		if p, ok := t.(*types.Pointer); ok {
			t = p.Elem()
		}
		if n, ok := t.(*types.Named); ok {
			key = n.Obj().Name() + "." + f.Name()
		}
	}
	return
}

// resolveType turns a type expression of a contract into a types.Type, in the scope of pkg.
func (u *Universe) resolveType(pkg *packages.Package, e ast.Expr) (types.Type, error) {
	switch x := e.(type) {
	case *ast.Ident:
		if o := types.Universe.Lookup(x.Name); o != nil {
			if tn, ok := o.(*types.TypeName); ok {
				return tn.Type(), nil
			}
		}
		if pkg != nil {
			if o := pkg.Types.Scope().Lookup(x.Name); o != nil {
				if tn, ok := o.(*types.TypeName); ok {
					return tn.Type(), nil
				}
			}
		}
		switch x.Name {
		case "mathint": // unbounded integer of the spec language
			return mathIntType, nil
		}
		return nil, fmt.Errorf("unknown type %s", x.Name)
	case *ast.SelectorExpr:
		id, ok := x.X.(*ast.Ident)
		if !ok {
			return nil, fmt.Errorf("bad type selector")
		}
		for path, p := range u.Pkgs {
			if p.Name == id.Name || strings.HasSuffix(path, "/"+id.Name) {
				if o := p.Types.Scope().Lookup(x.Sel.Name); o != nil {
					if tn, ok := o.(*types.TypeName); ok {
						return tn.Type(), nil
					}
				}
			}
		}
		return nil, fmt.Errorf("unknown type %s.%s", id.Name, x.Sel.Name)
	case *ast.ArrayType:
		el, err := u.resolveType(pkg, x.Elt)
		if err != nil {
			return nil, err
		}
		if x.Len == nil {
			return types.NewSlice(el), nil
		}
		if bl, ok := x.Len.(*ast.BasicLit); ok {
			var n int64
			fmt.Sscan(bl.Value, &n)
			return types.NewArray(el, n), nil
		}
		return nil, fmt.Errorf("array length must be a literal")
	case *ast.StarExpr:
		el, err := u.resolveType(pkg, x.X)
		if err != nil {
			return nil, err
		}
		return types.NewPointer(el), nil
	}
	return nil, fmt.Errorf("unsupported type expression %T", e)
}

// mathIntType: a named type standing for mathematical integers in specs.
var mathIntType = types.NewNamed(types.NewTypeName(token.NoPos, nil, "mathint", nil), types.Typ[types.Int], nil)

func isMathInt(t types.Type) bool { return t == mathIntType }

// resolveSameAs registers inherited contracts for dependency packages declared `sameas` a repo
// package: only for functions whose printed declarations are identical.
func (u *Universe) resolveSameAs() []string {
	var notes []string
	for dep, repo := range u.SameAs {
		dp, rp := u.Pkgs[dep], u.Pkgs[repo]
		if dp == nil || rp == nil {
			notes = append(notes, fmt.Sprintf("sameas %s %s: package not loaded", dep, repo))
			continue
		}
		for key, c := range u.Contracts {
			if c.PkgPath != repo || c.Assumed {
				continue
			}
			_ = key
			rf, _ := findFunc(rp, c.Key)
			df, _ := findFunc(dp, c.Key)
			if rf == nil || df == nil {
				continue
			}
			if printNode(u.Fset, rf) != printNode(u.Fset, df) {
				notes = append(notes, fmt.Sprintf("%s.%s differs from %s.%s: contract not inherited", dep, c.Key, repo, c.Key))
				continue
			}
			if _, exists := u.Contracts[dep+"."+c.Key]; exists {
				continue
			}
			cc := *c
			cc.PkgPath = dep
			cc.Inherited = repo
			cc.Props = nil
			u.Contracts[dep+"."+c.Key] = &cc
		}
	}
	return notes
}

func printNode(fset *token.FileSet, n ast.Node) string {
	var sb strings.Builder
	printer.Fprint(&sb, fset, n)
	return sb.String()
}
