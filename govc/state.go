package main

import (
	"time"
	"fmt"
	"os"
	"runtime/debug"
	"go/ast"
	"go/types"
	"sort"
	"strings"

	"golang.org/x/tools/go/packages"
)

type State struct {
	vars map[types.Object]Value
	mem  map[int]Value
	pc   []*Term
	res  map[string]Value // named results of the contract at a return
	ghost map[string]Value // ghost names bound by `let` clauses
	borrowed []borrowRec   // memory handed out by callees that the function under proof must not write
	bc       *boundCache   // variable bounds read off the path condition (see bounds.go)
}

type recDef struct {
	params []*Term
	body   *Term
}

// borrowRec: a slice returned by a callee whose contract marks it `borrowed`: it may alias storage of
// the callee's side (for example the buffer behind an encoding.BinaryMarshaler), so at every return
// its real memory [off, off+cap) must hold what it held when it was handed out.
type borrowRec struct {
	alloc    int
	path     []string
	arr      *Term
	off, cap *Term
	where    string
}

func newState() *State {
	return &State{vars: map[types.Object]Value{}, mem: map[int]Value{}}
}

func (s *State) fork() *State {
	n := &State{vars: make(map[types.Object]Value, len(s.vars)), mem: make(map[int]Value, len(s.mem))}
	for k, v := range s.vars {
		n.vars[k] = v
	}
	for k, v := range s.mem {
		n.mem[k] = v
	}
	n.pc = append([]*Term(nil), s.pc...)
	n.borrowed = append([]borrowRec(nil), s.borrowed...)
	if s.res != nil {
		n.res = map[string]Value{}
		for k, v := range s.res {
			n.res[k] = v
		}
	}
	if s.ghost != nil {
		n.ghost = map[string]Value{}
		for k, v := range s.ghost {
			n.ghost[k] = v
		}
	}
	return n
}

func (s *State) assume(t *Term) {
	if t.IsTrue() {
		return
	}
	if t.Op == "and" {
		for _, a := range t.Args {
			s.assume(a)
		}
		return
	}
	for _, p := range s.pc {
		if p == t {
			return
		}
	}
	s.pc = append(s.pc, t)
}

// RefV marks a local variable that lives in memory (address taken / sliced).
type RefV struct {
	Alloc int
	Typ   types.Type
}

type Obl struct {
	Name   string
	Kind   string // post, inv.init, inv.keep, safe.index, ..., cover, lemma
	PC     []*Term
	Goal   *Term
	Where  string
	Func   string
	Cover  bool // expected sat (vacuity guard)
	Hint   string
	Defs   string // extra SMT definitions (rec functions)
	Inputs []InputBinding
	// results
	Status  string // unsat, sat, unknown, timeout, error
	Solver  string
	Time    float64
	Model   string
	File    string
	Trivial bool
	DefNames []string
	DefBodies []*Term
	provedFile string // the SMT-LIB file whose unsatisfiability discharged the obligation
	RecDefs  map[string]*recDef // recursive spec functions: parameters and body (for the unfold-once attempt)
	Real bool // print integers as reals (field-congruence mode)
	realPrint bool
	ExtraAsserts []string
}

type InputBinding struct {
	Name string // parameter name
	Kind string // scalar, slice, string, array
	Sym  map[string]string // role -> smt symbol (val / arr / len)
	Typ  string
}

type UnsupportedError struct{ Msg string }

func (e *UnsupportedError) Error() string { return e.Msg }

func unsupported(format string, args ...interface{}) {
	msg := fmt.Sprintf(format, args...)
	if os.Getenv("GOVC_DEBUG") != "" {
		msg += "\n" + string(debug.Stack())
	}
	panic(&UnsupportedError{msg})
}

// Exec is the symbolic executor for one function under contract (or one lemma).
type Exec struct {
	errAlias  map[types.Object]types.Object // target variable of errors.As -> the error variable it was extracted from
	oblCells  int       // total number of assumption references held by obligations (memory budget)
	steps     int       // statements executed (analysis budget)
	started   time.Time // start of the symbolic execution of the function under proof
	seqLens   map[string]int // parameters modelled as fixed-length sequences (seqlen clause)
	specDepth int // > 0 while a function body is executed on behalf of contract text
	U     *Universe
	Pkg   *packages.Package
	C     *Contract
	Fn    *ast.FuncDecl
	Obj   *types.Func
	R     *Repr
	Name  string // qualified name used in obligation names
	Obls  []*Obl
	entry *State

	nextAlloc *int
	nextSym   *int
	occ       map[string]int
	loopIDs   map[ast.Stmt]string
	nodeOrd   map[ast.Node]int
	frames    []*frame
	globals   map[types.Object]Value
	globalMem map[int]Value
	inGlobalInit int
	trusted   map[string]bool // assumed contracts used
	inlined   map[string]bool
	defs      map[string]string // SMT definitions of rec spec functions used
	defOrder  []string
	inputs    []InputBinding
	opaque    map[string]bool
	noOverflowObl bool
	trivial   int
	globalPC  []*Term
	usedLemmas map[string]bool
	axiomsOnly bool
	defTerms   map[string]*Term // bodies of the SMT-defined spec functions (for symbol collection)
	defParams  map[string][]*Term
	defIsRec   map[string]bool
	quiet      int // > 0: obligations are not recorded (dry runs of loop bodies)
	fieldModulus *Term // field-congruence mode: big.Int Mod by this term is the identity
}

// frame: one (possibly inlined) function activation.
type frame struct {
	pkg     *packages.Package
	fn      *ast.FuncDecl
	c       *Contract
	results []types.Object // named result vars in code (may be nil entries)
	sig     *types.Signature
	name    string
}

func (x *Exec) top() *frame { return x.frames[len(x.frames)-1] }

func (x *Exec) fresh(base string, s *Sort) *Term {
	*x.nextSym++
	return Var(fmt.Sprintf("%s!%d", base, *x.nextSym), s)
}

func (x *Exec) alloc() int {
	*x.nextAlloc++
	return *x.nextAlloc
}

func (x *Exec) addObl(kind, name string, st *State, goal *Term, where string) {
	if x.quiet > 0 || x.inGlobalInit > 0 {
		return
	}
	if goal.IsTrue() {
		x.trivial++
		return
	}
	if goal.Op == "forall" && len(goal.Bound) > 0 {
		// a quantified goal that is an assumption up to the names of the bound variables
		for _, p := range st.pc {
			if p.Op != "forall" || len(p.Bound) != len(goal.Bound) {
				continue
			}
			m := map[string]*Term{}
			okS := true
			for i, b := range p.Bound {
				if b.S != goal.Bound[i].S {
					okS = false
				}
				m[b.Name] = goal.Bound[i]
			}
			if okS && subst(p.Args[0], m) == goal.Args[0] {
				x.trivial++
				return
			}
		}
	}
	if goal.Op == "and" && (kind == "post" || kind == "inv" || kind == "lemma" || kind == "assert" || (kind == "pre" && len(goal.Args) > 8)) {
		if len(goal.Args) <= 2000 {
			for i, g := range goal.Args {
				x.addObl(kind, fmt.Sprintf("%s.c%d", name, i+1), st, g, where)
			}
			return
		}
		// very large conjunctions: groups of 256 conjuncts per obligation
		const grp = 256
		for i := 0; i < len(goal.Args); i += grp {
			j := i + grp
			if j > len(goal.Args) {
				j = len(goal.Args)
			}
			x.addOblNoSplit(kind, fmt.Sprintf("%s.g%d", name, i/grp+1), st, And(goal.Args[i:j]...), where)
		}
		return
	}
	if goal.Op == "=>" && goal.Args[1].Op == "and" && (kind == "post" || kind == "inv" || kind == "lemma" || kind == "assert") && len(goal.Args[1].Args) <= 20000 {
		for i, g := range goal.Args[1].Args {
			x.addObl(kind, fmt.Sprintf("%s.c%d", name, i+1), st, Implies(goal.Args[0], g), where)
		}
		return
	}
	x.addOblNoSplit(kind, name, st, goal, where)
}

func (x *Exec) addOblNoSplit(kind, name string, st *State, goal *Term, where string) {
	if x.quiet > 0 || x.inGlobalInit > 0 {
		return
	}
	full := x.Name + "#" + name
	x.occ[full]++
	if n := x.occ[full]; n > 1 {
		full = fmt.Sprintf("%s@%d", full, n)
	}
	x.oblCells += len(st.pc)
	if len(x.Obls) > 60000 || x.oblCells > 150_000_000 {
		unsupported("the analysis of this function generates too many obligations (more than %d, or more than %d assumption references): outside the budget", 60000, 150_000_000)
	}
	o := &Obl{Name: full, Kind: kind, PC: append([]*Term(nil), st.pc...), Goal: goal, Where: where, Func: x.Name, Real: x.fieldModulus != nil}
	o.Inputs = x.inputs
	x.Obls = append(x.Obls, o)
}

func (x *Exec) pos(n ast.Node) string {
	if n == nil {
		return ""
	}
	p := x.U.Fset.Position(n.Pos())
	f := p.Filename
	if strings.HasPrefix(f, x.U.RepoDir+"/") {
		f = strings.TrimPrefix(f, x.U.RepoDir+"/")
	}
	return fmt.Sprintf("%s:%d", f, p.Line)
}

// numberNodes assigns loop ids ("1", "2", "2.1") and ordinals of index/slice/call nodes.
func numberLoops(body *ast.BlockStmt) map[ast.Stmt]string {
	ids := map[ast.Stmt]string{}
	var walk func(n ast.Node, prefix string)
	walk = func(n ast.Node, prefix string) {
		cnt := 0
		ast.Inspect(n, func(m ast.Node) bool {
			if m == nil || m == n {
				return true
			}
			switch s := m.(type) {
			case *ast.ForStmt:
				cnt++
				id := fmt.Sprintf("%s%d", prefix, cnt)
				ids[s] = id
				walk(s.Body, id+".")
				return false
			case *ast.RangeStmt:
				cnt++
				id := fmt.Sprintf("%s%d", prefix, cnt)
				ids[s] = id
				walk(s.Body, id+".")
				return false
			case *ast.FuncLit:
				return false
			}
			return true
		})
	}
	if body != nil {
		walk(body, "")
	}
	return ids
}

func numberNodes(body *ast.BlockStmt) map[ast.Node]int {
	ord := map[ast.Node]int{}
	counts := map[string]int{}
	if body == nil {
		return ord
	}
	ast.Inspect(body, func(m ast.Node) bool {
		switch e := m.(type) {
		case *ast.IndexExpr:
			counts["index"]++
			ord[e] = counts["index"]
		case *ast.SliceExpr:
			counts["slice"]++
			ord[e] = counts["slice"]
		case *ast.CallExpr:
			counts["call"]++
			ord[e] = counts["call"]
		case *ast.BinaryExpr:
			counts["bin"]++
			ord[e] = counts["bin"]
		case *ast.ReturnStmt:
			counts["ret"]++
			ord[e] = counts["ret"]
		case *ast.AssignStmt:
			counts["asg"]++
			ord[e] = counts["asg"]
		case *ast.IncDecStmt:
			counts["asg"]++
			ord[e] = counts["asg"]
		case *ast.UnaryExpr:
			counts["un"]++
			ord[e] = counts["un"]
		}
		return true
	})
	return ord
}

// ---------------------------------------------------------------- memory helpers

func (x *Exec) memCell(st *State, alloc int) Value {
	if v, ok := st.mem[alloc]; ok {
		return v
	}
	if v, ok := x.globalMem[alloc]; ok {
		return v
	}
	panic(fmt.Sprintf("no allocation %d", alloc))
}

func navigate(v Value, path []string) Value {
	for _, f := range path {
		sv, ok := v.(StructV)
		if !ok {
			if _, isErr := v.(ErrV); isErr {
				unsupported("access to field %s of an error value through a pointer (error values are modelled by value)", f)
			}
			panic(fmt.Sprintf("navigate %v through non-struct %T", path, v))
		}
		v = sv.F[f]
	}
	return v
}

func updateAt(v Value, path []string, nv Value) Value {
	if len(path) == 0 {
		return nv
	}
	sv := v.(StructV)
	nf := make(map[string]Value, len(sv.F))
	for k, w := range sv.F {
		nf[k] = w
	}
	nf[path[0]] = updateAt(sv.F[path[0]], path[1:], nv)
	return StructV{F: nf, Typ: sv.Typ}
}

func (x *Exec) memArr(st *State, alloc int, path []string) ArrayV {
	v := navigate(x.memCell(st, alloc), path)
	a, ok := v.(ArrayV)
	if !ok {
		panic(fmt.Sprintf("allocation %d%v is %T, not an array", alloc, path, v))
	}
	return a
}

func (x *Exec) setMem(st *State, alloc int, path []string, nv Value) {
	if _, ok := st.mem[alloc]; !ok {
		if _, g := x.globalMem[alloc]; g {
			unsupported("write to package-level data (allocation %d)", alloc)
		}
	}
	st.mem[alloc] = updateAt(st.mem[alloc], path, nv)
}

// ---------------------------------------------------------------- merging

func pcSuffix(base, s *State) *Term {
	if len(s.pc) < len(base.pc) {
		return nil
	}
	for i := range base.pc {
		if s.pc[i] != base.pc[i] {
			return nil
		}
	}
	return And(s.pc[len(base.pc):]...)
}

type mergeFail struct{ why string }

func mergeVal(g *Term, a, b Value) Value {
	switch av := a.(type) {
	case Scalar:
		bv, ok := b.(Scalar)
		if !ok || av.T.S != bv.T.S {
			panic(mergeFail{"scalar kind"})
		}
		return Scalar{Ite(g, av.T, bv.T), av.Typ}
	case UConst:
		if bv, ok := b.(UConst); ok && av.V.ExactString() == bv.V.ExactString() {
			return av
		}
		panic(mergeFail{"uconst"})
	case SliceV:
		bv, ok := b.(SliceV)
		if !ok {
			panic(mergeFail{"slice kind"})
		}
		if av.Alloc != bv.Alloc || strings.Join(av.Path(), ".") != strings.Join(bv.Path(), ".") {
			panic(mergeFail{"slices of different allocations"})
		}
		r := av
		r.Off = Ite(g, av.Off, bv.Off)
		r.Len = Ite(g, av.Len, bv.Len)
		r.Cap = Ite(g, av.Cap, bv.Cap)
		r.Nil = Ite(g, av.Nil, bv.Nil)
		return r
	case ArrayV:
		bv, ok := b.(ArrayV)
		if !ok {
			panic(mergeFail{"array kind"})
		}
		return ArrayV{Ite(g, av.T, bv.T), av.N, av.Elem, av.Typ}
	case ErrV:
		bv, ok := b.(ErrV)
		if !ok {
			panic(mergeFail{"err kind"})
		}
		return ErrV{Ite(g, av.Nil, bv.Nil), Ite(g, av.Kind, bv.Kind), Ite(g, av.Type, bv.Type), Ite(g, av.Off, bv.Off)}
	case AbsV:
		bv, ok := b.(AbsV)
		if !ok || av.T.S != bv.T.S {
			panic(mergeFail{"abs kind"})
		}
		return AbsV{Ite(g, av.T, bv.T), av.Typ}
	case StructV:
		bv, ok := b.(StructV)
		if !ok {
			panic(mergeFail{"struct kind"})
		}
		nf := map[string]Value{}
		for k, w := range av.F {
			nf[k] = mergeVal(g, w, bv.F[k])
		}
		return StructV{nf, av.Typ}
	case PtrV:
		bv, ok := b.(PtrV)
		if !ok || av.Alloc != bv.Alloc || strings.Join(av.Path, ".") != strings.Join(bv.Path, ".") {
			panic(mergeFail{"pointers to different allocations"})
		}
		r := av
		r.Nil = Ite(g, av.Nil, bv.Nil)
		return r
	case RefV:
		bv, ok := b.(RefV)
		if !ok || av.Alloc != bv.Alloc {
			panic(mergeFail{"ref"})
		}
		return av
	case TupleV:
		bv, ok := b.(TupleV)
		if !ok || len(av) != len(bv) {
			panic(mergeFail{"tuple"})
		}
		r := make(TupleV, len(av))
		for i := range av {
			r[i] = mergeVal(g, av[i], bv[i])
		}
		return r
	case nil:
		if b == nil {
			return nil
		}
		panic(mergeFail{"nil"})
	case FuncV:
		return av
	case RegexV:
		return av
	case SeqV:
		if av.At != nil {
			if bv, ok := b.(SeqV); ok && bv.At != nil && termEq(av.SymID, bv.SymID) {
				return av
			}
			panic(mergeFail{"symbolic sequence"})
		}
		if bv, ok := b.(SeqV); ok && len(av.Elems) == len(bv.Elems) && bv.At == nil {
			out := SeqV{Len: Ite(g, av.Len, bv.Len), Typ: av.Typ}
			for i := range av.Elems {
				if sameValue(av.Elems[i], bv.Elems[i]) {
					out.Elems = append(out.Elems, av.Elems[i])
				} else {
					out.Elems = append(out.Elems, mergeVal(g, av.Elems[i], bv.Elems[i]))
				}
			}
			return out
		}
	case HashV:
		if bv, ok := b.(HashV); ok && sameHash(av, bv) {
			return av
		}
		panic(mergeFail{"hash objects differ"})
	}
	panic(mergeFail{fmt.Sprintf("cannot merge %T", a)})
}

func (s SliceV) Path() []string { return s.path }

// mergeStates joins outcome states that all extend base. Returns nil when not mergeable.
func mergeStates(base *State, outs []*State) (res *State) {
	if len(outs) == 1 {
		return outs[0]
	}
	defer func() {
		if r := recover(); r != nil {
			if _, ok := r.(mergeFail); ok {
				res = nil
				return
			}
			panic(r)
		}
	}()
	guards := make([]*Term, len(outs))
	for i, o := range outs {
		g := pcSuffix(base, o)
		if g == nil {
			return nil
		}
		guards[i] = g
	}
	acc := outs[len(outs)-1].fork()
	acc.pc = append([]*Term(nil), base.pc...)
	for i := len(outs) - 2; i >= 0; i-- {
		o := outs[i]
		g := guards[i]
		// variables: only those present in both
		for k, v := range o.vars {
			w, ok := acc.vars[k]
			if !ok {
				continue
			}
			if !sameValue(v, w) {
				acc.vars[k] = mergeVal(g, v, w)
			}
		}
		for k := range acc.vars {
			if _, ok := o.vars[k]; !ok {
				delete(acc.vars, k)
			}
		}
		for k, v := range o.mem {
			w, ok := acc.mem[k]
			if !ok {
				acc.mem[k] = v // allocation only exists on this path
				continue
			}
			if !sameValue(v, w) {
				acc.mem[k] = mergeVal(g, v, w)
			}
		}
		for _, b := range o.borrowed {
			dup := false
			for _, c := range acc.borrowed {
				if c.alloc == b.alloc && c.arr == b.arr {
					dup = true
				}
			}
			if !dup {
				acc.borrowed = append(acc.borrowed, b)
			}
		}
		if acc.ghost != nil {
			for k, w := range acc.ghost {
				v, ok := o.ghost[k]
				if !ok {
					if strings.HasPrefix(k, "#dyn:") {
						// a call counter known on one side only: unknown from here on
						acc.ghost[k] = AbsV{}
						continue
					}
					delete(acc.ghost, k)
					continue
				}
				if strings.HasPrefix(k, "#dyn:") {
					sv, ok1 := v.(Scalar)
					sw, ok2 := w.(Scalar)
					if !ok1 || !ok2 || sv.T != sw.T {
						acc.ghost[k] = AbsV{}
					}
					continue
				}
				if !sameValue(v, w) {
					acc.ghost[k] = mergeVal(g, v, w)
				}
			}
		}
		for k := range o.ghost {
			if strings.HasPrefix(k, "#dyn:") {
				if acc.ghost == nil {
					acc.ghost = map[string]Value{}
				}
				if _, ok := acc.ghost[k]; !ok {
					acc.ghost[k] = AbsV{}
				}
			}
		}
		if o.res != nil && acc.res != nil {
			for k, v := range o.res {
				if w, ok := acc.res[k]; ok && !sameValue(v, w) {
					acc.res[k] = mergeVal(g, v, w)
				}
			}
		}
	}
	acc.pc = append(acc.pc, Or(guards...))
	return acc
}

func sameValue(a, b Value) bool {
	switch av := a.(type) {
	case Scalar:
		bv, ok := b.(Scalar)
		return ok && termEq(av.T, bv.T)
	case ArrayV:
		bv, ok := b.(ArrayV)
		return ok && termEq(av.T, bv.T)
	case SliceV:
		bv, ok := b.(SliceV)
		return ok && av.Alloc == bv.Alloc && termEq(av.Off, bv.Off) && termEq(av.Len, bv.Len) && termEq(av.Cap, bv.Cap) && termEq(av.Nil, bv.Nil) && strings.Join(av.path, ".") == strings.Join(bv.path, ".")
	case ErrV:
		bv, ok := b.(ErrV)
		return ok && termEq(av.Nil, bv.Nil) && termEq(av.Kind, bv.Kind) && termEq(av.Type, bv.Type) && termEq(av.Off, bv.Off)
	case AbsV:
		bv, ok := b.(AbsV)
		return ok && termEq(av.T, bv.T)
	case StructV:
		bv, ok := b.(StructV)
		if !ok {
			return false
		}
		for k, w := range av.F {
			if !sameValue(w, bv.F[k]) {
				return false
			}
		}
		return true
	case RegexV:
		bv, ok := b.(RegexV)
		return ok && bv.Pattern == av.Pattern
	case SeqV:
		bv, ok := b.(SeqV)
		if !ok || len(av.Elems) != len(bv.Elems) || !termEq(av.Len, bv.Len) {
			return false
		}
		if av.At != nil || bv.At != nil {
			return av.At != nil && bv.At != nil && termEq(av.SymID, bv.SymID)
		}
		for i := range av.Elems {
			if !sameValue(av.Elems[i], bv.Elems[i]) {
				return false
			}
		}
		return true
	case PtrV:
		bv, ok := b.(PtrV)
		return ok && av.Alloc == bv.Alloc && termEq(av.Nil, bv.Nil) && strings.Join(av.Path, ".") == strings.Join(bv.Path, ".")
	case RefV:
		bv, ok := b.(RefV)
		return ok && av.Alloc == bv.Alloc
	case UConst:
		bv, ok := b.(UConst)
		return ok && av.V.ExactString() == bv.V.ExactString()
	case TupleV:
		bv, ok := b.(TupleV)
		if !ok || len(av) != len(bv) {
			return false
		}
		for i := range av {
			if !sameValue(av[i], bv[i]) {
				return false
			}
		}
		return true
	case nil:
		return b == nil
	case FuncV:
		return true
	case HashV:
		bv, ok := b.(HashV)
		return ok && sameHash(av, bv)
	}
	return false
}

func sameHash(a, b HashV) bool {
	if a.Name != b.Name || len(a.Chunks) != len(b.Chunks) || a.Fn != b.Fn {
		return false
	}
	for i := range a.Chunks {
		ca, cb := a.Chunks[i], b.Chunks[i]
		if ca.arr != cb.arr || ca.off != cb.off || ca.len != cb.len || len(ca.elems) != len(cb.elems) {
			return false
		}
		for j := range ca.elems {
			if ca.elems[j] != cb.elems[j] {
				return false
			}
		}
	}
	return true
}

func sortedKeys(m map[string]bool) []string {
	var ks []string
	for k := range m {
		ks = append(ks, k)
	}
	sort.Strings(ks)
	return ks
}
