package main

// Native model of hash.Hash objects (trusted base T4): a hash is an uninterpreted function of the
// bytes written. The written bytes are kept as a list of chunks; a chunk of statically known length
// contributes its individual bytes as arguments of the function symbol (so equal contents give equal
// digests by congruence), a chunk of symbolic length contributes (array, offset, length). The
// function symbol is indexed by the chunk shape; specifications must chunk the input the same way.

import (
	"fmt"
	"go/ast"
	"go/types"
	"strings"
)

type hchunk struct {
	elems         []*Term // constant-length chunk
	arr, off, len *Term   // symbolic-length chunk
}

type HashV struct {
	Name   string
	Fn     *Term // crypto.Hash value for generic hashers (nil for fixed functions)
	Chunks []hchunk
	NKey   int // leading chunks that survive Reset (HMAC key)
	Size   *Term
	Typ    types.Type
	Elem   types.Type // element type of input and digest (nil: byte); int8 for the ternary Curl sponge
	Done   bool       // a sponge that has been squeezed (a second squeeze is not modelled)
}

func (h HashV) elem() types.Type {
	if h.Elem != nil {
		return h.Elem
	}
	return byteT
}

var fixedHashSize = map[string]int64{"curlp81": 243, "sha512": 64, "sha256": 32, "ripemd160": 20, "blake2b256": 32, "blake2b160": 20, "sha1": 20, "md5": 16}

func (x *Exec) newHash(name string, fn *Term) HashV {
	h := HashV{Name: name, Fn: fn}
	base := strings.TrimPrefix(name, "hmac_")
	if n, ok := fixedHashSize[base]; ok {
		h.Size = IntC(n)
	} else if fn != nil {
		h.Size = App("hashsize", IntS, fn)
	} else {
		unsupported("hash %s of unknown size", name)
	}
	x.trusted["hash function "+name+" as an uninterpreted function of its input bytes"] = true
	return h
}

// canonElems rewrites each element to the simpler term it is known to be equal to on this path
// (an assumed or proved equality `simple = compound` of the path condition): congruence of the digest
// function is then syntactic instead of being left to theory combination over hundreds of arguments.
func (x *Exec) canonElems(e *Env, ch hchunk) hchunk {
	if len(ch.elems) < 32 || e.st == nil {
		return ch
	}
	rep := map[*Term]*Term{}
	simple := func(t *Term) bool { return t.Op == "select" || t.Op == "var" }
	for _, p := range e.st.pc {
		if p.Op != "=" || len(p.Args) != 2 {
			continue
		}
		a, b := p.Args[0], p.Args[1]
		if simple(a) && !simple(b) && b.Op != "const" {
			if _, ok := rep[b]; !ok {
				rep[b] = a
			}
		} else if simple(b) && !simple(a) && a.Op != "const" {
			if _, ok := rep[a]; !ok {
				rep[a] = b
			}
		}
	}
	if len(rep) == 0 {
		return ch
	}
	memo := map[*Term]*Term{}
	var rw func(t *Term) *Term
	rw = func(t *Term) *Term {
		if r, ok := memo[t]; ok {
			return r
		}
		var res *Term
		if r, ok := rep[t]; ok {
			res = r
		} else if len(t.Args) == 0 || t.Op == "forall" || t.Op == "exists" {
			res = t
		} else {
			args := make([]*Term, len(t.Args))
			ch := false
			for i, a := range t.Args {
				args[i] = rw(a)
				if args[i] != a {
					ch = true
				}
			}
			res = t
			if ch {
				res = rebuild(t, args)
				if r, ok := rep[res]; ok {
					res = r
				}
			}
		}
		memo[t] = res
		return res
	}
	out := make([]*Term, len(ch.elems))
	for i, t := range ch.elems {
		out[i] = rw(t)
	}
	return hchunk{elems: out}
}

func (x *Exec) chunkOf(e *Env, v Value) hchunk {
	return x.chunkOf0(e, v)
}

// canonBigApps rewrites, in an obligation, the arguments of every application with many arguments
// (digest functions over a whole block) to the simpler terms they are known to equal: an equality
// `simple = compound` that is a top-level assumption lets `compound` be replaced by `simple`.
// Replacing equals by equals under the same assumptions keeps the obligation equivalent; its purpose
// is to make congruence of such applications syntactic.
func canonBigApps(o *Obl) {
	has := false
	seenA := map[*Term]bool{}
	var find func(t *Term)
	find = func(t *Term) {
		if seenA[t] || has {
			return
		}
		seenA[t] = true
		if t.Op == "app" && len(t.Args) >= 32 {
			has = true
			return
		}
		for _, a := range t.Args {
			find(a)
		}
	}
	find(o.Goal)
	for _, p := range o.PC {
		find(p)
	}
	if !has {
		return
	}
	rep := map[*Term]*Term{}
	simple := func(t *Term) bool { return t.Op == "select" || t.Op == "var" }
	for _, p := range o.PC {
		if p.Op != "=" || len(p.Args) != 2 {
			continue
		}
		a, b := p.Args[0], p.Args[1]
		if simple(a) && !simple(b) && b.Op != "const" {
			if _, ok := rep[b]; !ok {
				rep[b] = a
			}
		} else if simple(b) && !simple(a) && a.Op != "const" {
			if _, ok := rep[a]; !ok {
				rep[a] = b
			}
		} else if !simple(a) && !simple(b) && a.Op != "const" && b.Op != "const" && a.S == IntS {
			// two compound terms known to be equal: the second is rewritten to the first
			_, ka := rep[a]
			_, kb := rep[b]
			if !ka && !kb && a != b {
				rep[b] = a
			}
		}
	}
	if len(rep) == 0 {
		return
	}
	memoIn := map[*Term]*Term{} // rewriting inside a big application: every subterm
	var rwIn func(t *Term) *Term
	rwIn = func(t *Term) *Term {
		if r, ok := memoIn[t]; ok {
			return r
		}
		var res *Term
		if r, ok := rep[t]; ok {
			res = r
		} else if len(t.Args) == 0 || t.Op == "forall" || t.Op == "exists" {
			res = t
		} else {
			args := make([]*Term, len(t.Args))
			ch := false
			for i, a := range t.Args {
				args[i] = rwIn(a)
				if args[i] != a {
					ch = true
				}
			}
			res = t
			if ch {
				res = rebuild(t, args)
				if r, ok := rep[res]; ok {
					res = r
				}
			}
		}
		memoIn[t] = res
		return res
	}
	memoOut := map[*Term]*Term{} // outside: only descend until a big application is met
	var rwOut func(t *Term) *Term
	rwOut = func(t *Term) *Term {
		if r, ok := memoOut[t]; ok {
			return r
		}
		var res *Term
		switch {
		case t.Op == "app" && len(t.Args) >= 32:
			args := make([]*Term, len(t.Args))
			for i, a := range t.Args {
				args[i] = rwIn(a)
			}
			res = App(t.Name, t.S, args...)
		case len(t.Args) == 0:
			res = t
		case t.Op == "forall" || t.Op == "exists":
			body := rwOut(t.Args[0])
			res = t
			if body != t.Args[0] {
				if t.Op == "forall" {
					res = Forall(t.Bound, body)
				} else {
					res = Exists(t.Bound, body)
				}
			}
		default:
			args := make([]*Term, len(t.Args))
			ch := false
			for i, a := range t.Args {
				args[i] = rwOut(a)
				if args[i] != a {
					ch = true
				}
			}
			res = t
			if ch {
				res = rebuild(t, args)
			}
		}
		memoOut[t] = res
		return res
	}
	for i, p := range o.PC {
		o.PC[i] = rwOut(p)
	}
	o.Goal = rwOut(o.Goal)
}

func (x *Exec) chunkOf0(e *Env, v Value) hchunk {
	var s SliceV
	switch c := v.(type) {
	case SliceV:
		s = c
	case ArrayV:
		var el []*Term
		for i := int64(0); i < c.N; i++ {
			el = append(el, Select(c.T, IntC(i)))
		}
		return hchunk{elems: el}
	case Scalar:
		return hchunk{elems: []*Term{c.T}}
	case UConst:
		return hchunk{elems: []*Term{e.convert(c, byteT).(Scalar).T}}
	case PtrV:
		cell, ok := navigate(x.memCell(e.st, c.Alloc), c.Path).(ArrayV)
		if !ok {
			unsupported("hash of pointer to non-array")
		}
		return x.chunkOf0(e, cell)
	default:
		unsupported("%s: cannot hash a %T", e.where, v)
	}
	arr := x.memArr(e.st, s.Alloc, s.path)
	ln := x.simplifyWithPC(e.st, s.Len)
	if n, ok := ln.Int64(); ok && n <= 256 {
		var el []*Term
		for i := int64(0); i < n; i++ {
			el = append(el, Select(arr.T, Add(s.Off, IntC(i))))
		}
		return hchunk{elems: el}
	}
	return hchunk{arr: arr.T, off: s.Off, len: ln}
}

func (h HashV) symbol() (string, []*Term) {
	var shape []string
	var args []*Term
	if h.Fn != nil {
		args = append(args, h.Fn)
	}
	for _, c := range h.Chunks {
		if c.arr != nil {
			shape = append(shape, "v")
			args = append(args, c.arr, c.off, c.len)
		} else {
			shape = append(shape, fmt.Sprintf("c%d", len(c.elems)))
			args = append(args, c.elems...)
		}
	}
	// merge adjacent constant chunks: H(a || b) only depends on the concatenation
	var merged []string
	run := 0
	flush := func() {
		if run > 0 {
			merged = append(merged, fmt.Sprintf("c%d", run))
			run = 0
		}
	}
	for _, c := range h.Chunks {
		if c.arr != nil {
			flush()
			merged = append(merged, "v")
		} else {
			run += len(c.elems)
		}
	}
	flush()
	_ = shape
	return h.Name + "$" + strings.Join(merged, "_"), args
}

func (h HashV) sliceType() types.Type {
	if h.Typ != nil {
		return h.Typ
	}
	return types.NewSlice(h.elem())
}

// digest returns the digest as a fresh byte slice value.
func (x *Exec) digest(e *Env, h HashV) SliceV {
	name, args := h.symbol()
	byteT := h.elem()
	es := e.R().sortOf(byteT)
	a := x.alloc()
	size := x.simplifyWithPC(e.st, h.Size)
	if n, ok := size.Int64(); ok && n <= 256 {
		arr := ConstArr(e.zeroElem(byteT))
		for i := int64(0); i < n; i++ {
			b := App(name, es, append([]*Term{IntC(i)}, args...)...)
			if h.Elem != nil && es == IntS {
				e.st.assume(And(Le(IntC(-1), b), Le(b, IntC(1)))) // a trit
			} else {
				e.st.assume(e.R().rangeOf(b, byteT))
			}
			arr = Store(arr, IntC(i), b)
		}
		e.st.mem[a] = ArrayV{T: arr, N: -1, Elem: byteT}
		return SliceV{Alloc: a, Off: IntC(0), Len: IntC(n), Cap: IntC(n), Elem: byteT, Nil: FalseT, Typ: h.sliceType()}
	}
	arr := x.fresh("digest", ArrS(es))
	k := x.fresh("k", IntS)
	b := App(name, es, append([]*Term{k}, args...)...)
	e.st.assume(Forall([]*Term{k}, And(Eq(Select(arr, k), b), e.R().rangeOf(b, byteT))))
	e.st.assume(Le(IntC(0), size))
	e.st.mem[a] = ArrayV{T: arr, N: -1, Elem: byteT}
	return SliceV{Alloc: a, Off: IntC(0), Len: size, Cap: size, Elem: byteT, Nil: FalseT, Typ: types.NewSlice(byteT)}
}

// hashMethod: methods of hash.Hash values held in variables.
func (x *Exec) hashMethod(e *Env, recv ast.Expr, h HashV, name string, n *ast.CallExpr) (Value, bool) {
	noErr := ErrV{Nil: TrueT, Kind: IntC(0), Type: IntC(0), Off: IntC(0)}
	switch name {
	case "Absorb":
		// Curl sponge: Absorb(in) fails exactly when len(in) is 0 or not a multiple of 243, and
		// panics after a squeeze
		if h.Done {
			unsupported("%s: Absorb after Squeeze", e.where)
		}
		sv, ok := e.expr(n.Args[0]).(SliceV)
		if !ok {
			unsupported("%s: Absorb of a non-slice", e.where)
		}
		bad := Or(Eq(sv.Len, IntC(0)), Ne(EMod(sv.Len, IntC(243)), IntC(0)))
		bad = x.simplifyWithPC(e.st, bad)
		if !bad.IsFalse() {
			unsupported("%s: Absorb of a slice whose length is not provably a positive multiple of 243", e.where)
		}
		h.Chunks = append(append([]hchunk{}, h.Chunks...), x.chunkOf(e, sv))
		x.writePlace(e, x.placeOf(e, recv), h)
		return noErr, true
	case "Squeeze", "MustSqueeze":
		cnt, ok := x.simplifyWithPC(e.st, e.toIntTerm(e.expr(n.Args[0]))).Int64()
		if !ok || cnt != 243 || h.Done {
			unsupported("%s: only a single Squeeze(243) is modelled", e.where)
		}
		d := x.digest(e, h)
		h.Done = true
		x.writePlace(e, x.placeOf(e, recv), h)
		if name == "MustSqueeze" {
			return d, true
		}
		return TupleV{d, noErr}, true
	case "Write":
		v := e.expr(n.Args[0])
		ch := x.chunkOf(e, v)
		h.Chunks = append(append([]hchunk{}, h.Chunks...), ch)
		x.writePlace(e, x.placeOf(e, recv), h)
		ln := IntC(int64(len(ch.elems)))
		if ch.arr != nil {
			ln = ch.len
		}
		return TupleV{Scalar{ln, intT}, noErr}, true
	case "Sum":
		d := x.digest(e, h)
		bv := e.expr(n.Args[0])
		if _, isNil := bv.(NilV); isNil {
			return d, true
		}
		b, ok := bv.(SliceV)
		if !ok {
			unsupported("hash.Sum(%T)", bv)
		}
		// append(b, digest...)
		old := x.memArr(e.st, b.Alloc, b.path)
		a := x.alloc()
		darr := x.memArr(e.st, d.Alloc, nil)
		arr := old.T
		if c, ok := d.Len.Int64(); ok {
			for i := int64(0); i < c; i++ {
				arr = Store(arr, Add(Add(b.Off, b.Len), IntC(i)), Select(darr.T, IntC(i)))
			}
		} else {
			na := x.fresh("sum", old.T.S)
			j := x.fresh("j", IntS)
			e.st.assume(Forall([]*Term{j}, Implies(And(Le(IntC(0), j), Lt(j, b.Len)), Eq(Select(na, Add(b.Off, j)), Select(old.T, Add(b.Off, j))))))
			j2 := x.fresh("j", IntS)
			e.st.assume(Forall([]*Term{j2}, Implies(And(Le(IntC(0), j2), Lt(j2, d.Len)), Eq(Select(na, Add(Add(b.Off, b.Len), j2)), Select(darr.T, j2)))))
			arr = na
		}
		e.st.mem[a] = ArrayV{T: arr, N: -1, Elem: byteT}
		nl := Add(b.Len, d.Len)
		x.appendInPlace(e, b, old, arr, nl)
		return SliceV{Alloc: a, Off: b.Off, Len: nl, Cap: nl, Elem: byteT, Nil: FalseT, Typ: b.Typ}, true
	case "Reset":
		h.Chunks = append([]hchunk{}, h.Chunks[:h.NKey]...)
		x.writePlace(e, x.placeOf(e, recv), h)
		return TupleV{}, true
	case "Size":
		return Scalar{x.simplifyWithPC(e.st, h.Size), intT}, true
	}
	return nil, false
}

// hashcat(name-or-hash, chunk, ...): the digest of the concatenation, for specifications.
func (x *Exec) hashcatForm(e *Env, n *ast.CallExpr) Value {
	if len(n.Args) < 1 {
		unsupported("hashcat needs a hash name")
	}
	var h HashV
	if bl, ok := n.Args[0].(*ast.BasicLit); ok {
		h = x.newHash(strings.Trim(bl.Value, "\""), nil)
		if h.Name == "curlp81" {
			h.Elem = types.Typ[types.Int8]
		}
	} else {
		fv, ok := e.expr(n.Args[0]).(Scalar)
		if !ok {
			unsupported("%s: hashcat: first argument must be a hash name or a crypto.Hash value", e.where)
		}
		h = x.newHash("cryptohash", fv.T)
		if hs, ok := specConstsNow["HS"]; ok {
			// generic hasher: the specification is instantiated per digest size HS
			h.Size = IntC(hs)
		}
	}
	for _, a := range n.Args[1:] {
		if call, ok := a.(*ast.CallExpr); ok {
			if id, ok := call.Fun.(*ast.Ident); ok && id.Name == "key" {
				// key(k): HMAC key chunk
				h.Chunks = append(h.Chunks, x.chunkOf(e, e.expr(call.Args[0])))
				h.NKey = len(h.Chunks)
				continue
			}
		}
		h.Chunks = append(h.Chunks, x.chunkOf(e, e.expr(a)))
	}
	return x.digest(e, h)
}
