package main

// Native model of math/big.Int (trusted base T1): a *big.Int is a pointer to a cell holding an
// unbounded mathematical integer; every method computes the mathematical function of its name.
// Receiver aliasing (z.Op(z, x)) is handled by evaluating the operands before the store.

import (
	"fmt"
	"go/ast"
	"go/constant"
	"go/types"
	"math/big"
)

func isBigIntType(t types.Type) bool {
	n, ok := t.(*types.Named)
	return ok && n.Obj().Pkg() != nil && n.Obj().Pkg().Path() == "math/big" && n.Obj().Name() == "Int"
}

func isBigIntPtr(t types.Type) bool {
	p, ok := t.(*types.Pointer)
	return ok && isBigIntType(p.Elem())
}

func (x *Exec) bigCell(e *Env, v Value, at ast.Node, what string) (PtrV, *Term) {
	p, ok := v.(PtrV)
	if !ok {
		if _, isNil := v.(NilV); isNil {
			x.safety(e, "nil", at, FalseT)
			return PtrV{}, IntC(0)
		}
		unsupported("%s: %s is %T, not a *big.Int", e.where, what, v)
	}
	x.safety(e, "nil", at, Not(p.Nil))
	cell := navigate(x.memCell(e.st, p.Alloc), p.Path)
	s, ok := cell.(Scalar)
	if !ok || s.T.S != IntS {
		unsupported("%s: %s does not point to a big.Int cell (%T)", e.where, what, cell)
	}
	return p, s.T
}

func (x *Exec) bigSet(e *Env, z PtrV, v *Term) Value {
	x.setMem(e.st, z.Alloc, z.Path, Scalar{v, mathIntType})
	return z
}

func (x *Exec) newBig(e *Env, v *Term) PtrV {
	a := x.alloc()
	e.st.mem[a] = Scalar{v, mathIntType}
	return PtrV{Alloc: a, Nil: FalseT, Typ: bigPtrType}
}

var bigPtrType types.Type

// beValue: big-endian value of a byte slice.
func (x *Exec) beValue(e *Env, s SliceV) *Term {
	arr := x.memArr(e.st, s.Alloc, s.path)
	ln := x.simplifyWithPC(e.st, s.Len)
	if n, ok := ln.Int64(); ok && n <= 128 {
		v := IntC(0)
		for i := int64(0); i < n; i++ {
			b := e.toIntTerm(Scalar{Select(arr.T, Add(s.Off, IntC(i))), byteT})
			v = Add(Mul(v, IntC(256)), b)
		}
		return v
	}
	v := App("be_seq", IntS, arr.T, s.Off, ln)
	e.st.assume(Le(IntC(0), v))
	return v
}

func (x *Exec) bigMethod(e *Env, callee *types.Func, recv ast.Expr, n *ast.CallExpr) (Value, bool) {
	name := callee.Name()
	x.trusted["math/big.Int."+name+" computes the mathematical function of its name"] = true
	arg := func(i int) (PtrV, *Term) { return x.bigCell(e, e.expr(n.Args[i]), n, fmt.Sprintf("argument %d of %s", i+1, name)) }
	z, zv := x.bigCell(e, e.expr(recv), n, "receiver of "+name)
	switch name {
	case "Set":
		_, a := arg(0)
		return x.bigSet(e, z, a), true
	case "SetInt64", "SetUint64":
		return x.bigSet(e, z, e.toIntTerm(e.expr(n.Args[0]))), true
	case "SetBytes":
		s, ok := e.expr(n.Args[0]).(SliceV)
		if !ok {
			unsupported("big.Int.SetBytes of %T", e.expr(n.Args[0]))
		}
		return x.bigSet(e, z, x.beValue(e, s)), true
	case "SetString":
		sv, ok1 := e.expr(n.Args[0]).(SliceV)
		base, ok2 := e.toIntTerm(e.expr(n.Args[1])).Int64()
		if !ok1 || !ok2 {
			unsupported("big.Int.SetString with non-constant arguments")
		}
		str, ok := x.constString(e, sv)
		if !ok {
			unsupported("big.Int.SetString with a non-constant string")
		}
		v, good := new(big.Int).SetString(str, int(base))
		if !good {
			return TupleV{PtrV{Nil: TrueT, Typ: bigPtrType}, Scalar{FalseT, boolT}}, true
		}
		x.bigSet(e, z, IntB(v))
		return TupleV{z, Scalar{TrueT, boolT}}, true
	case "Add", "Sub", "Mul", "Quo", "Mod", "And", "Or", "Div", "Rem":
		_, a := arg(0)
		_, b := arg(1)
		var r *Term
		switch name {
		case "Add":
			r = Add(a, b)
		case "Sub":
			r = Sub(a, b)
		case "Mul":
			r = Mul(a, b)
		case "Quo":
			x.safety(e, "div", n, Ne(b, IntC(0)))
			if e.knownNonNeg(a, 0) && e.knownNonNeg(b, 0) {
				r = EDiv(a, b)
			} else {
				r = TDiv(a, b)
			}
		case "Rem":
			x.safety(e, "div", n, Ne(b, IntC(0)))
			r = TMod(a, b)
		case "Div":
			x.safety(e, "div", n, Ne(b, IntC(0)))
			r = EDiv(a, b)
		case "Mod":
			x.safety(e, "div", n, Ne(b, IntC(0)))
			if x.fieldModulus != nil && (b == x.fieldModulus || (b.Op == "const" && b.V.Sign() == 0)) {
				r = a // field-congruence mode: the modulus is read as 0, reduction is the identity
			} else {
				r = EMod(a, b)
			}
		case "And":
			r = x.bigAnd(e, a, b)
		case "Or":
			r = x.bigOr(e, a, b)
		}
		return x.bigSet(e, z, r), true
	case "Neg":
		_, a := arg(0)
		return x.bigSet(e, z, Neg(a)), true
	case "Exp":
		// z = x**y mod |m| (m nil or 0: no reduction), for a constant exponent 0 <= y <= 64
		_, a := arg(0)
		_, yv := arg(1)
		yc, ok := x.simplifyWithPC(e.st, yv).Int64()
		if !ok || yc < 0 || yc > 64 {
			unsupported("%s: big.Int.Exp with a non-constant or large exponent", e.where)
		}
		r := IntC(1)
		for i := int64(0); i < yc; i++ {
			r = Mul(r, a)
		}
		mv := e.expr(n.Args[2])
		if _, isNil := mv.(NilV); !isNil {
			_, m := arg(2)
			mc := x.simplifyWithPC(e.st, m)
			if x.fieldModulus != nil && (m == x.fieldModulus || (mc.Op == "const" && mc.V.Sign() == 0)) {
				// field-congruence mode: reduction is the identity
			} else {
				if mc.Op != "const" || mc.V.Sign() <= 0 {
					x.safety(e, "exp.modulus", n, Lt(IntC(0), m))
				}
				r = EMod(r, m)
			}
		}
		return x.bigSet(e, z, r), true
	case "Lsh", "Rsh":
		_, a := arg(0)
		cnt := x.simplifyWithPC(e.st, e.toIntTerm(e.expr(n.Args[1])))
		k, ok := cnt.Int64()
		if !ok {
			unsupported("%s: big.Int.%s by a non-constant amount (specialise the function on the size)", e.where, name)
		}
		if name == "Lsh" {
			return x.bigSet(e, z, Mul(a, IntB(pow2(int(k))))), true
		}
		return x.bigSet(e, z, EDiv(a, IntB(pow2(int(k))))), true
	case "Cmp":
		_, b := arg(0)
		return Scalar{Ite(Lt(zv, b), IntC(-1), Ite(Eq(zv, b), IntC(0), IntC(1))), intT}, true
	case "Sign":
		return Scalar{Ite(Lt(zv, IntC(0)), IntC(-1), Ite(Eq(zv, IntC(0)), IntC(0), IntC(1))), intT}, true
	case "IsUint64":
		return Scalar{And(Le(IntC(0), zv), Lt(zv, IntB(pow2(64)))), boolT}, true
	case "IsInt64":
		return Scalar{And(Le(IntB(new(big.Int).Neg(pow2(63))), zv), Lt(zv, IntB(pow2(63)))), boolT}, true
	case "Uint64":
		t := types.Typ[types.Uint64]
		return e.convert(Scalar{EMod(zv, IntB(pow2(64))), mathIntType}, t), true
	case "Int64":
		t := types.Typ[types.Int64]
		return e.convert(Scalar{zv, mathIntType}, t), true
	case "Bytes":
		return x.bigBytes(e, zv), true
	case "FillBytes":
		s, ok := e.expr(n.Args[0]).(SliceV)
		if !ok {
			unsupported("big.Int.FillBytes of %T", e.expr(n.Args[0]))
		}
		ln := x.simplifyWithPC(e.st, s.Len)
		k, okc := ln.Int64()
		if !okc || k > 128 {
			unsupported("%s: big.Int.FillBytes into a buffer of non-constant length", e.where)
		}
		x.safety(e, "fillbytes", n, And(Le(IntC(0), zv), Lt(zv, IntB(new(big.Int).Exp(big.NewInt(256), big.NewInt(k), nil)))))
		arr := x.memArr(e.st, s.Alloc, s.path)
		t := arr.T
		for i := int64(0); i < k; i++ {
			d := EMod(EDiv(zv, IntB(new(big.Int).Exp(big.NewInt(256), big.NewInt(k-1-i), nil))), IntC(256))
			t = Store(t, Add(s.Off, IntC(i)), elemCoerce(Scalar{d, byteT}, arr.T.S.Elem).T)
		}
		x.setMem(e.st, s.Alloc, s.path, ArrayV{T: t, N: arr.N, Elem: arr.Elem, Typ: arr.Typ})
		// the bytes written are the big-endian representation of z (part of the trusted model:
		// the digit expansion above sums back to z, which the solvers do not see by themselves)
		e.st.assume(Eq(x.beValue(e, s), zv))
		return s, true
	case "ModInverse":
		_, g := arg(0)
		_, m := arg(1)
		ok := App("has_inverse", BoolS, g, m)
		if x.fieldModulus != nil {
			// over the rationals with the modulus read as 0: invertible iff non-zero
			ok = Ne(g, IntC(0))
		}
		inv := x.fresh("inv", IntS)
		if x.fieldModulus != nil && (m == x.fieldModulus || (m.Op == "const" && m.V.Sign() == 0)) {
			// field-congruence mode (rationals, modulus read as 0): g * inv = 1
			e.st.assume(Implies(ok, Eq(Mul(g, inv), IntC(1))))
		} else {
			e.st.assume(Implies(ok, And(Le(IntC(0), inv), Lt(inv, m), Eq(EMod(Mul(g, inv), m), EMod(IntC(1), m)))))
		}
		cur := zv
		x.setMem(e.st, z.Alloc, z.Path, Scalar{Ite(ok, inv, cur), mathIntType})
		r := z
		r.Nil = Not(ok)
		return r, true
	case "Bit":
		// bit i of |x| for a constant i (0 or 1)
		if i, ok := x.simplifyWithPC(e.st, e.toIntTerm(e.expr(n.Args[0]))).Int64(); ok && i >= 0 && i < 4096 {
			abs := Ite(Lt(zv, IntC(0)), Sub(IntC(0), zv), zv)
			return e.convert(Scalar{EMod(EDiv(abs, IntB(pow2(int(i)))), IntC(2)), mathIntType}, types.Typ[types.Uint]), true
		}
		return nil, false
	case "BitLen":
		r := x.fresh("bitlen", IntS)
		e.st.assume(Le(IntC(0), r))
		return Scalar{r, intT}, true
	}
	return nil, false
}

func (x *Exec) constString(e *Env, s SliceV) (string, bool) {
	n, ok := s.Len.Int64()
	if !ok {
		return "", false
	}
	arr := x.memArr(e.st, s.Alloc, s.path)
	var b []byte
	for i := int64(0); i < n; i++ {
		c := Select(arr.T, Add(s.Off, IntC(i)))
		if c.Op != "const" {
			return "", false
		}
		b = append(b, byte(c.V.Int64()))
	}
	return string(b), true
}

// bigAnd: only masks 2^k - 1 on non-negative values (a mod 2^k).
func (x *Exec) bigAnd(e *Env, a, b *Term) *Term {
	if a.Op == "const" && b.Op != "const" {
		a, b = b, a
	}
	if b.Op == "const" {
		if lo, n, ok := contigMask(b.V); ok && lo == 0 {
			if !e.knownNonNeg(a, 0) {
				x.safety(e, "bigand", nil, Le(IntC(0), a))
			}
			return EMod(a, IntB(pow2(n)))
		}
	}
	r := App("big_and", IntS, a, b)
	return r
}

// bigOr: x | y = x + y when x is a multiple of 2^k and 0 <= y < 2^k (the only use in this repository).
func (x *Exec) bigOr(e *Env, a, b *Term) *Term {
	// hi | lo with hi a multiple of 2^k and 0 <= lo < 2^k known from the bounds of this path: hi + lo
	for _, p := range [][2]*Term{{a, b}, {b, a}} {
		hi, lo := p[0], p[1]
		if hi.Op == "*" && len(hi.Args) == 2 && hi.Args[1].Op == "const" {
			c := hi.Args[1].V
			if c.Sign() > 0 && new(big.Int).And(c, new(big.Int).Sub(c, big.NewInt(1))).Sign() == 0 {
				if iv := e.termBounds(lo, e.varBounds(), map[*Term]*ival{}, 0); iv != nil && iv.lo.Sign() >= 0 && iv.hi.Cmp(c) < 0 {
					return Add(hi, lo)
				}
			}
		}
	}
	r := App("big_or", IntS, a, b)
	for _, p := range [][2]*Term{{a, b}, {b, a}} {
		hi, lo := p[0], p[1]
		if hi.Op == "*" && len(hi.Args) == 2 && hi.Args[1].Op == "const" {
			c := hi.Args[1].V
			if c.Sign() > 0 && new(big.Int).And(c, new(big.Int).Sub(c, big.NewInt(1))).Sign() == 0 {
				e.st.assume(Implies(And(Le(IntC(0), lo), Lt(lo, IntB(c))), Eq(r, Add(hi, lo))))
			}
		}
	}
	if a.Op == "const" && a.V.Sign() == 0 {
		return b
	}
	if b.Op == "const" && b.V.Sign() == 0 {
		return a
	}
	return r
}

// bigBytes: minimal big-endian encoding as a fresh slice.
func (x *Exec) bigBytes(e *Env, v *Term) Value {
	a := x.alloc()
	es := e.R().sortOf(byteT)
	arr := x.fresh("bigbytes", ArrS(es))
	e.st.mem[a] = ArrayV{T: arr, N: -1, Elem: byteT}
	e.st.assume(x.elemRangeAxiom(e, arr, byteT))
	ln := App("big_bytelen", IntS, v)
	e.st.assume(And(Le(IntC(0), ln), Eq(Eq(ln, IntC(0)), Eq(v, IntC(0)))))
	s := SliceV{Alloc: a, Off: IntC(0), Len: ln, Cap: ln, Elem: byteT, Nil: FalseT, Typ: types.NewSlice(byteT)}
	be := App("be_seq", IntS, arr, IntC(0), ln)
	e.st.assume(Eq(be, v))
	first := e.toIntTerm(Scalar{Select(arr, IntC(0)), byteT})
	e.st.assume(Implies(Lt(IntC(0), ln), Ne(first, IntC(0))))
	// when the value is known to fit K <= 72 bytes: the length and every byte, by position from the
	// least significant end (all linear facts: the m-th byte from the end is (v div 256^m) mod 256 and the
	// length is the c with 256^(c-1) <= v < 256^c)
	if iv := e.termBounds(v, e.varBounds(), map[*Term]*ival{}, 0); iv != nil && iv.lo.Sign() >= 0 {
		K := int64((iv.hi.BitLen() + 7) / 8)
		if K <= 72 {
			e.st.assume(Le(ln, IntC(K)))
			p := big.NewInt(1)
			for c := int64(0); c <= K; c++ {
				// ln == c  <=>  256^(c-1) <= v < 256^c   (c = 0: v = 0)
				hi := new(big.Int).Set(p)
				if c == 0 {
					e.st.assume(Eq(Eq(ln, IntC(0)), Lt(v, IntB(hi))))
				} else {
					lo := new(big.Int).Rsh(p, 8)
					e.st.assume(Eq(Eq(ln, IntC(c)), And(Le(IntB(lo), v), Lt(v, IntB(hi)))))
				}
				p = new(big.Int).Lsh(p, 8)
			}
			for m := int64(0); m < K; m++ {
				d := EMod(EDiv(v, IntB(new(big.Int).Lsh(big.NewInt(1), uint(8*m)))), IntC(256))
				bt := e.toIntTerm(Scalar{Select(arr, Sub(Sub(ln, IntC(1)), IntC(m))), byteT})
				e.st.assume(Implies(Lt(IntC(m), ln), Eq(bt, d)))
			}
		}
	}
	return s
}

var _ = constant.MakeInt64
