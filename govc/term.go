package main

// SMT terms with light simplification (constant folding, select/store, ite).
// Index sort of every array is Int.

import (
	"fmt"
	"math/big"
	"sort"
	"strings"
	"sync"
)

type SortKind int

const (
	KInt SortKind = iota
	KBool
	KBV
	KArr
	KUn // uninterpreted sort
)

type Sort struct {
	K    SortKind
	W    int
	Elem *Sort
	Name string
}

var (
	IntS  = &Sort{K: KInt}
	BoolS = &Sort{K: KBool}
	bvS   = map[int]*Sort{}
	arrS  = map[*Sort]*Sort{}
	unS   = map[string]*Sort{}
)

func BVS(w int) *Sort {
	if s, ok := bvS[w]; ok {
		return s
	}
	s := &Sort{K: KBV, W: w}
	bvS[w] = s
	return s
}
func ArrS(e *Sort) *Sort {
	if s, ok := arrS[e]; ok {
		return s
	}
	s := &Sort{K: KArr, Elem: e}
	arrS[e] = s
	return s
}
func UnS(n string) *Sort {
	if s, ok := unS[n]; ok {
		return s
	}
	s := &Sort{K: KUn, Name: n}
	unS[n] = s
	return s
}
func (s *Sort) String() string {
	switch s.K {
	case KInt:
		return "Int"
	case KBool:
		return "Bool"
	case KBV:
		return fmt.Sprintf("(_ BitVec %d)", s.W)
	case KArr:
		return "(Array Int " + s.Elem.String() + ")"
	}
	return s.Name
}

type Term struct {
	Op    string
	Args  []*Term
	S     *Sort
	V     *big.Int // for "const"
	Name  string   // for "var", "app"
	P1    int      // extract hi / zext amount
	P2    int      // extract lo
	Bound []*Term  // forall/exists bound vars
	ArgS  []*Sort  // for app: declared arg sorts (redundant)
}

var (
	TrueT  = &Term{Op: "true", S: BoolS}
	FalseT = &Term{Op: "false", S: BoolS}
)

func IntC(v int64) *Term       { return intern(&Term{Op: "const", S: IntS, V: big.NewInt(v)}) }
func IntB(v *big.Int) *Term    { return intern(&Term{Op: "const", S: IntS, V: new(big.Int).Set(v)}) }
func BoolC(b bool) *Term {
	if b {
		return TrueT
	}
	return FalseT
}
func BVC(v *big.Int, w int) *Term {
	m := new(big.Int).Lsh(big.NewInt(1), uint(w))
	x := new(big.Int).Mod(v, m)
	return intern(&Term{Op: "const", S: BVS(w), V: x})
}
func BVCi(v int64, w int) *Term { return BVC(big.NewInt(v), w) }
func Var(name string, s *Sort) *Term { return intern(&Term{Op: "var", Name: name, S: s}) }

func (t *Term) IsConst() bool { return t.Op == "const" || t.Op == "true" || t.Op == "false" }
func (t *Term) IsTrue() bool  { return t.Op == "true" }
func (t *Term) IsFalse() bool { return t.Op == "false" }
func (t *Term) Int64() (int64, bool) {
	if t.Op == "const" && t.V.IsInt64() {
		return t.V.Int64(), true
	}
	return 0, false
}

var internTab = map[string]*Term{}
var internMu sync.Mutex

// intern returns the canonical pointer for a structurally identical term (hash-consing), so that
// repeated sub-terms are shared in memory and can be shared when printing.
func intern(t *Term) *Term {
	var sb strings.Builder
	sb.WriteString(t.Op)
	sb.WriteByte('|')
	fmt.Fprintf(&sb, "%p|%s|%d|%d|", t.S, t.Name, t.P1, t.P2)
	if t.V != nil {
		sb.WriteString(t.V.String())
	}
	for _, a := range t.Args {
		fmt.Fprintf(&sb, "|%p", a)
	}
	for _, b := range t.Bound {
		fmt.Fprintf(&sb, "|b%p", b)
	}
	k := sb.String()
	internMu.Lock()
	defer internMu.Unlock()
	if c, ok := internTab[k]; ok {
		return c
	}
	internTab[k] = t
	return t
}

func mk(op string, s *Sort, args ...*Term) *Term { return intern(&Term{Op: op, S: s, Args: args}) }

func termEq(a, b *Term) bool {
	if a == b {
		return true
	}
	if a.Op != b.Op || a.S != b.S || len(a.Args) != len(b.Args) || a.Name != b.Name || a.P1 != b.P1 || a.P2 != b.P2 {
		return false
	}
	if a.Op == "const" {
		return a.V.Cmp(b.V) == 0
	}
	if len(a.Bound) != len(b.Bound) {
		return false
	}
	for i := range a.Bound {
		if !termEq(a.Bound[i], b.Bound[i]) {
			return false
		}
	}
	for i := range a.Args {
		if !termEq(a.Args[i], b.Args[i]) {
			return false
		}
	}
	return true
}

// ---- Int arithmetic

func Add(a, b *Term) *Term {
	if a.Op == "const" && b.Op == "const" {
		return IntB(new(big.Int).Add(a.V, b.V))
	}
	if a.Op == "const" && a.V.Sign() == 0 {
		return b
	}
	if b.Op == "const" && b.V.Sign() == 0 {
		return a
	}
	// (x + c1) + c2
	if b.Op == "const" && a.Op == "+" && len(a.Args) == 2 && a.Args[1].Op == "const" {
		return Add(a.Args[0], IntB(new(big.Int).Add(a.Args[1].V, b.V)))
	}
	if a.Op == "const" {
		return Add(b, a)
	}
	// x + (y - x) = y
	if b.Op == "-" && len(b.Args) == 2 && b.Args[1] == a {
		return b.Args[0]
	}
	if a.Op == "-" && len(a.Args) == 2 && a.Args[1] == b {
		return a.Args[0]
	}
	return mk("+", IntS, a, b)
}
func Sub(a, b *Term) *Term {
	if b.Op == "const" {
		return Add(a, IntB(new(big.Int).Neg(b.V)))
	}
	if termEq(a, b) {
		return IntC(0)
	}
	if a.Op == "+" && len(a.Args) == 2 && termEq(a.Args[0], b) {
		return a.Args[1]
	}
	return mk("-", IntS, a, b)
}
func Neg(a *Term) *Term {
	if a.Op == "const" {
		return IntB(new(big.Int).Neg(a.V))
	}
	return mk("-", IntS, IntC(0), a)
}
func Mul(a, b *Term) *Term {
	if a.Op == "const" && b.Op == "const" {
		return IntB(new(big.Int).Mul(a.V, b.V))
	}
	if a.Op == "const" {
		a, b = b, a
	}
	if b.Op == "const" {
		if b.V.Sign() == 0 {
			return IntC(0)
		}
		if b.V.Cmp(big.NewInt(1)) == 0 {
			return a
		}
		if a.Op == "+" && len(a.Args) == 2 && a.Args[1].Op == "const" {
			return Add(Mul(a.Args[0], b), IntB(new(big.Int).Mul(a.Args[1].V, b.V)))
		}
	}
	return mk("*", IntS, a, b)
}

// EDiv / EMod: SMT-LIB euclidean div/mod.
func EDiv(a, b *Term) *Term {
	if a.Op == "const" && b.Op == "const" && b.V.Sign() != 0 {
		q, m := new(big.Int), new(big.Int)
		q.DivMod(a.V, b.V, m)
		return IntB(q)
	}
	if b.Op == "const" && b.V.Cmp(big.NewInt(1)) == 0 {
		return a
	}
	// (x div c1) div c2 = x div (c1*c2) for positive constants (floor division)
	if b.Op == "const" && b.V.Sign() > 0 && a.Op == "div" && a.Args[1].Op == "const" && a.Args[1].V.Sign() > 0 {
		return EDiv(a.Args[0], IntB(new(big.Int).Mul(a.Args[1].V, b.V)))
	}
	return mk("div", IntS, a, b)
}
func EMod(a, b *Term) *Term {
	if a.Op == "const" && b.Op == "const" && b.V.Sign() != 0 {
		q, m := new(big.Int), new(big.Int)
		q.DivMod(a.V, b.V, m)
		return IntB(m)
	}
	if b.Op == "const" && b.V.Cmp(big.NewInt(1)) == 0 {
		return IntC(0)
	}
	// (x mod m) mod m
	if a.Op == "mod" && termEq(a.Args[1], b) {
		return a
	}
	return mk("mod", IntS, a, b)
}

// TDiv / TMod: Go truncated division for Int-represented values.
func TDiv(a, b *Term) *Term {
	if a.Op == "const" && b.Op == "const" && b.V.Sign() != 0 {
		return IntB(new(big.Int).Quo(a.V, b.V))
	}
	if b.Op == "const" && b.V.Sign() > 0 {
		return Ite(Le(IntC(0), a), EDiv(a, b), Neg(EDiv(Neg(a), b)))
	}
	// general: sign handling
	abs := func(x *Term) *Term { return Ite(Le(IntC(0), x), x, Neg(x)) }
	q := EDiv(abs(a), abs(b))
	return Ite(Eq(Le(IntC(0), a), Le(IntC(0), b)), q, Neg(q))
}
func TMod(a, b *Term) *Term {
	if a.Op == "const" && b.Op == "const" && b.V.Sign() != 0 {
		return IntB(new(big.Int).Rem(a.V, b.V))
	}
	if b.Op == "const" && b.V.Sign() > 0 {
		return Ite(Le(IntC(0), a), EMod(a, b), Neg(EMod(Neg(a), b)))
	}
	return Sub(a, Mul(b, TDiv(a, b)))
}

func Lt(a, b *Term) *Term {
	if a.Op == "const" && b.Op == "const" {
		return BoolC(a.V.Cmp(b.V) < 0)
	}
	return mk("<", BoolS, a, b)
}
func Le(a, b *Term) *Term {
	if a.Op == "const" && b.Op == "const" {
		return BoolC(a.V.Cmp(b.V) <= 0)
	}
	if termEq(a, b) {
		return TrueT
	}
	return mk("<=", BoolS, a, b)
}
func Gt(a, b *Term) *Term { return Lt(b, a) }
func Ge(a, b *Term) *Term { return Le(b, a) }

func Eq(a, b *Term) *Term {
	if a.S != b.S {
		panic(fmt.Sprintf("Eq sort mismatch: %s : %s  vs  %s : %s", a, a.S, b, b.S))
	}
	if termEq(a, b) {
		return TrueT
	}
	if a.IsConst() && b.IsConst() {
		return FalseT // distinct constants of same sort (termEq failed)
	}
	if a.S == BoolS {
		if a.IsTrue() {
			return b
		}
		if b.IsTrue() {
			return a
		}
		if a.IsFalse() {
			return Not(b)
		}
		if b.IsFalse() {
			return Not(a)
		}
	}
	return mk("=", BoolS, a, b)
}
func Ne(a, b *Term) *Term { return Not(Eq(a, b)) }

func Not(a *Term) *Term {
	switch a.Op {
	case "true":
		return FalseT
	case "false":
		return TrueT
	case "not":
		return a.Args[0]
	}
	return mk("not", BoolS, a)
}
func And(xs ...*Term) *Term {
	var out []*Term
	for _, x := range xs {
		if x.IsTrue() {
			continue
		}
		if x.IsFalse() {
			return FalseT
		}
		if x.Op == "and" {
			out = append(out, x.Args...)
		} else {
			out = append(out, x)
		}
	}
	if len(out) == 0 {
		return TrueT
	}
	if len(out) == 1 {
		return out[0]
	}
	return mk("and", BoolS, out...)
}
func Or(xs ...*Term) *Term {
	var out []*Term
	for _, x := range xs {
		if x.IsFalse() {
			continue
		}
		if x.IsTrue() {
			return TrueT
		}
		if x.Op == "or" {
			out = append(out, x.Args...)
		} else {
			out = append(out, x)
		}
	}
	if len(out) == 0 {
		return FalseT
	}
	if len(out) == 1 {
		return out[0]
	}
	return mk("or", BoolS, out...)
}
func Implies(a, b *Term) *Term {
	if a.IsTrue() {
		return b
	}
	if a.IsFalse() || b.IsTrue() {
		return TrueT
	}
	if b.IsFalse() {
		return Not(a)
	}
	return mk("=>", BoolS, a, b)
}
func Ite(c, a, b *Term) *Term {
	if c.IsTrue() {
		return a
	}
	if c.IsFalse() {
		return b
	}
	if a.S != b.S {
		panic(fmt.Sprintf("Ite sort mismatch: %s : %s vs %s : %s", a, a.S, b, b.S))
	}
	if termEq(a, b) {
		return a
	}
	if a.S == BoolS {
		if a.IsTrue() && b.IsFalse() {
			return c
		}
		if a.IsFalse() && b.IsTrue() {
			return Not(c)
		}
	}
	return mk("ite", a.S, c, a, b)
}

// ---- arrays

func Select(a, i *Term) *Term {
	if a.S.K != KArr {
		panic("select on non-array " + a.String())
	}
	if i.S != IntS {
		panic("select index not Int: " + i.String())
	}
	// read over write with decidable index comparison
	cur := a
	for cur.Op == "store" {
		j := cur.Args[1]
		if termEq(i, j) {
			return cur.Args[2]
		}
		if distinctIdx(i, j) {
			cur = cur.Args[0]
			continue
		}
		break
	}
	if cur.Op == "constarr" {
		return cur.Args[0]
	}
	if cur.Op == "ite" && i.Op == "const" {
		return Ite(cur.Args[0], Select(cur.Args[1], i), Select(cur.Args[2], i))
	}
	return mk("select", a.S.Elem, cur, i)
}

// distinctIdx: syntactically provable i != j (both const, or x+c1 vs x+c2).
func distinctIdx(i, j *Term) bool {
	if i.Op == "const" && j.Op == "const" {
		return i.V.Cmp(j.V) != 0
	}
	bi, ci := splitOff(i)
	bj, cj := splitOff(j)
	if bi != nil && bj != nil && termEq(bi, bj) {
		return ci.Cmp(cj) != 0
	}
	return false
}
func splitOff(t *Term) (*Term, *big.Int) {
	if t.Op == "+" && len(t.Args) == 2 && t.Args[1].Op == "const" {
		return t.Args[0], t.Args[1].V
	}
	if t.Op == "const" {
		return nil, t.V
	}
	return t, big.NewInt(0)
}
func Store(a, i, v *Term) *Term {
	if a.S.K != KArr || a.S.Elem != v.S {
		panic(fmt.Sprintf("store sort mismatch: %s into %s", v.S, a.S))
	}
	return mk("store", a.S, a, i, v)
}
func ConstArr(elem *Term) *Term { return mk("constarr", ArrS(elem.S), elem) }

func App(name string, ret *Sort, args ...*Term) *Term {
	return intern(&Term{Op: "app", Name: name, S: ret, Args: args})
}

func Forall(bound []*Term, body *Term) *Term {
	if body.IsTrue() {
		return TrueT
	}
	if len(bound) == 0 {
		return body
	}
	return intern(&Term{Op: "forall", S: BoolS, Bound: bound, Args: []*Term{body}})
}
func Exists(bound []*Term, body *Term) *Term {
	if body.IsFalse() {
		return FalseT
	}
	if len(bound) == 0 {
		return body
	}
	return intern(&Term{Op: "exists", S: BoolS, Bound: bound, Args: []*Term{body}})
}

// ---- bit vectors

func bvmask(w int) *big.Int {
	return new(big.Int).Sub(new(big.Int).Lsh(big.NewInt(1), uint(w)), big.NewInt(1))
}
func toSigned(v *big.Int, w int) *big.Int {
	if v.Bit(w-1) == 1 {
		return new(big.Int).Sub(v, new(big.Int).Lsh(big.NewInt(1), uint(w)))
	}
	return v
}

func BVBin(op string, a, b *Term) *Term {
	if a.S != b.S || a.S.K != KBV {
		panic(fmt.Sprintf("bv op %s sort mismatch %s %s (%s, %s)", op, a.S, b.S, a, b))
	}
	w := a.S.W
	if a.Op == "const" && b.Op == "const" {
		r := new(big.Int)
		switch op {
		case "bvadd":
			r.Add(a.V, b.V)
		case "bvsub":
			r.Sub(a.V, b.V)
		case "bvmul":
			r.Mul(a.V, b.V)
		case "bvand":
			r.And(a.V, b.V)
		case "bvor":
			r.Or(a.V, b.V)
		case "bvxor":
			r.Xor(a.V, b.V)
		case "bvshl":
			if b.V.Cmp(big.NewInt(int64(w))) >= 0 {
				r.SetInt64(0)
			} else {
				r.Lsh(a.V, uint(b.V.Int64()))
			}
		case "bvlshr":
			if b.V.Cmp(big.NewInt(int64(w))) >= 0 {
				r.SetInt64(0)
			} else {
				r.Rsh(a.V, uint(b.V.Int64()))
			}
		case "bvashr":
			s := toSigned(a.V, w)
			sh := uint(w)
			if b.V.Cmp(big.NewInt(int64(w))) < 0 {
				sh = uint(b.V.Int64())
			}
			r.Rsh(s, sh)
		case "bvudiv":
			if b.V.Sign() == 0 {
				return mk(op, a.S, a, b)
			}
			r.Quo(a.V, b.V)
		case "bvurem":
			if b.V.Sign() == 0 {
				return mk(op, a.S, a, b)
			}
			r.Rem(a.V, b.V)
		default:
			return mk(op, a.S, a, b)
		}
		return BVC(r, w)
	}
	zero := func(t *Term) bool { return t.Op == "const" && t.V.Sign() == 0 }
	switch op {
	case "bvor", "bvxor", "bvadd":
		if zero(a) {
			return b
		}
		if zero(b) {
			return a
		}
	case "bvshl", "bvlshr", "bvashr", "bvsub":
		if zero(b) {
			return a
		}
	case "bvand":
		if zero(a) || zero(b) {
			return BVCi(0, w)
		}
		if a.Op == "const" && a.V.Cmp(bvmask(w)) == 0 {
			return b
		}
		if b.Op == "const" && b.V.Cmp(bvmask(w)) == 0 {
			return a
		}
	}
	return mk(op, a.S, a, b)
}
func BVNot(a *Term) *Term {
	if a.Op == "const" {
		return BVC(new(big.Int).Xor(a.V, bvmask(a.S.W)), a.S.W)
	}
	if a.Op == "bvnot" {
		return a.Args[0]
	}
	return mk("bvnot", a.S, a)
}
func BVNeg(a *Term) *Term {
	if a.Op == "const" {
		return BVC(new(big.Int).Neg(a.V), a.S.W)
	}
	return mk("bvneg", a.S, a)
}
func BVCmp(op string, a, b *Term) *Term {
	if a.S != b.S || a.S.K != KBV {
		panic(fmt.Sprintf("bv cmp %s sort mismatch %s %s", op, a.S, b.S))
	}
	if a.Op == "const" && b.Op == "const" {
		w := a.S.W
		switch op {
		case "bvult":
			return BoolC(a.V.Cmp(b.V) < 0)
		case "bvule":
			return BoolC(a.V.Cmp(b.V) <= 0)
		case "bvslt":
			return BoolC(toSigned(a.V, w).Cmp(toSigned(b.V, w)) < 0)
		case "bvsle":
			return BoolC(toSigned(a.V, w).Cmp(toSigned(b.V, w)) <= 0)
		}
	}
	return mk(op, BoolS, a, b)
}
func Extract(hi, lo int, a *Term) *Term {
	if lo == 0 && hi == a.S.W-1 {
		return a
	}
	if a.Op == "const" {
		r := new(big.Int).Rsh(a.V, uint(lo))
		return BVC(r, hi-lo+1)
	}
	return intern(&Term{Op: "extract", S: BVS(hi - lo + 1), Args: []*Term{a}, P1: hi, P2: lo})
}
func ZExt(n int, a *Term) *Term {
	if n == 0 {
		return a
	}
	if a.Op == "const" {
		return BVC(a.V, a.S.W+n)
	}
	return intern(&Term{Op: "zext", S: BVS(a.S.W + n), Args: []*Term{a}, P1: n})
}
func SExt(n int, a *Term) *Term {
	if n == 0 {
		return a
	}
	if a.Op == "const" {
		return BVC(toSigned(a.V, a.S.W), a.S.W+n)
	}
	return intern(&Term{Op: "sext", S: BVS(a.S.W + n), Args: []*Term{a}, P1: n})
}
func BV2Nat(a *Term) *Term {
	if a.Op == "const" {
		return IntB(a.V)
	}
	if a.Op == "int2bv" {
		// bv2nat(int2bv(x)) = x mod 2^w
		return EMod(a.Args[0], IntB(new(big.Int).Lsh(big.NewInt(1), uint(a.S.W))))
	}
	if a.Op == "ite" && (a.Args[1].Op == "const" || a.Args[2].Op == "const") {
		return Ite(a.Args[0], BV2Nat(a.Args[1]), BV2Nat(a.Args[2]))
	}
	return mk("bv2nat", IntS, a)
}
func Int2BV(w int, a *Term) *Term {
	if a.Op == "const" {
		return BVC(a.V, w)
	}
	if a.Op == "bv2nat" {
		x := a.Args[0]
		switch {
		case x.S.W == w:
			return x
		case x.S.W < w:
			return ZExt(w-x.S.W, x)
		default:
			return Extract(w-1, 0, x)
		}
	}
	if a.Op == "ite" {
		return Ite(a.Args[0], Int2BV(w, a.Args[1]), Int2BV(w, a.Args[2]))
	}
	return intern(&Term{Op: "int2bv", S: BVS(w), Args: []*Term{a}, P1: w})
}
func Concat(a, b *Term) *Term {
	if a.Op == "const" && b.Op == "const" {
		r := new(big.Int).Lsh(a.V, uint(b.S.W))
		r.Or(r, b.V)
		return BVC(r, a.S.W+b.S.W)
	}
	return mk("concat", BVS(a.S.W+b.S.W), a, b)
}

// ---- printing

func smtInt(v *big.Int) string {
	if v.Sign() < 0 {
		return "(- " + new(big.Int).Neg(v).String() + ")"
	}
	return v.String()
}

func sanitize(n string) string {
	return "|" + n + "|"
}

func (t *Term) String() string {
	var sb strings.Builder
	t.write(&sb)
	return sb.String()
}

func (t *Term) write(sb *strings.Builder) {
	switch t.Op {
	case "true", "false":
		sb.WriteString(t.Op)
	case "const":
		if t.S.K == KBV {
			if t.S.W%4 == 0 {
				fmt.Fprintf(sb, "#x%0*s", t.S.W/4, t.V.Text(16))
			} else {
				fmt.Fprintf(sb, "#b%0*s", t.S.W, t.V.Text(2))
			}
		} else {
			sb.WriteString(smtInt(t.V))
		}
	case "var":
		sb.WriteString(sanitize(t.Name))
	case "constarr":
		fmt.Fprintf(sb, "((as const %s) ", t.S)
		t.Args[0].write(sb)
		sb.WriteString(")")
	case "app":
		if len(t.Args) == 0 {
			sb.WriteString(sanitize(t.Name))
			return
		}
		sb.WriteString("(" + sanitize(t.Name))
		for _, a := range t.Args {
			sb.WriteString(" ")
			a.write(sb)
		}
		sb.WriteString(")")
	case "forall", "exists":
		sb.WriteString("(" + t.Op + " (")
		for _, b := range t.Bound {
			fmt.Fprintf(sb, "(%s %s)", sanitize(b.Name), b.S)
		}
		sb.WriteString(") ")
		t.Args[0].write(sb)
		sb.WriteString(")")
	case "extract":
		fmt.Fprintf(sb, "((_ extract %d %d) ", t.P1, t.P2)
		t.Args[0].write(sb)
		sb.WriteString(")")
	case "zext":
		fmt.Fprintf(sb, "((_ zero_extend %d) ", t.P1)
		t.Args[0].write(sb)
		sb.WriteString(")")
	case "sext":
		fmt.Fprintf(sb, "((_ sign_extend %d) ", t.P1)
		t.Args[0].write(sb)
		sb.WriteString(")")
	case "int2bv":
		fmt.Fprintf(sb, "((_ int2bv %d) ", t.P1)
		t.Args[0].write(sb)
		sb.WriteString(")")
	default:
		sb.WriteString("(" + t.Op)
		for _, a := range t.Args {
			sb.WriteString(" ")
			a.write(sb)
		}
		sb.WriteString(")")
	}
}

// collect free symbols (vars and apps) for declarations.
type symbols struct {
	vars map[string]*Sort
	apps map[string]*Term
	sorts map[string]bool
	seen  map[*Term]bool
	boundAll map[string]bool
}

func newSymbols() *symbols {
	return &symbols{vars: map[string]*Sort{}, apps: map[string]*Term{}, sorts: map[string]bool{}}
}

func (sy *symbols) noteSort(s *Sort) {
	switch s.K {
	case KUn:
		sy.sorts[s.Name] = true
	case KArr:
		sy.noteSort(s.Elem)
	}
}

func (sy *symbols) collect(t *Term, bound map[string]bool) {
	if sy.seen == nil {
		sy.seen = map[*Term]bool{}
		sy.boundAll = map[string]bool{}
	}
	// bound variables have globally unique names: gather them first
	var cb func(t *Term)
	cbSeen := map[*Term]bool{}
	cb = func(t *Term) {
		if cbSeen[t] {
			return
		}
		cbSeen[t] = true
		for _, b := range t.Bound {
			sy.boundAll[b.Name] = true
		}
		for _, a := range t.Args {
			cb(a)
		}
	}
	cb(t)
	for k := range bound {
		sy.boundAll[k] = true
	}
	var walk func(t *Term)
	walk = func(t *Term) {
		if sy.seen[t] {
			return
		}
		sy.seen[t] = true
		switch t.Op {
		case "var":
			if !sy.boundAll[t.Name] {
				if old, ok := sy.vars[t.Name]; ok && old != t.S {
					panic(fmt.Sprintf("symbol %s used at two sorts: %s and %s", t.Name, old, t.S))
				}
				sy.vars[t.Name] = t.S
				sy.noteSort(t.S)
			}
			return
		case "app":
			if _, ok := sy.apps[t.Name]; !ok {
				sy.apps[t.Name] = t
				sy.noteSort(t.S)
				for _, a := range t.Args {
					sy.noteSort(a.S)
				}
			}
		case "forall", "exists":
			for _, b := range t.Bound {
				sy.noteSort(b.S)
			}
		}
		for _, a := range t.Args {
			walk(a)
		}
	}
	walk(t)
}

func sortStr(s *Sort, real bool) string {
	if real && s == IntS {
		return "Real"
	}
	return s.String()
}

func (sy *symbols) decls(defined map[string]bool) string {
	return sy.declsMode(defined, false)
}

func (sy *symbols) declsMode(defined map[string]bool, real bool) string {
	var sb strings.Builder
	var ss []string
	for s := range sy.sorts {
		ss = append(ss, s)
	}
	sort.Strings(ss)
	for _, s := range ss {
		fmt.Fprintf(&sb, "(declare-sort %s 0)\n", s)
	}
	var ns []string
	for n := range sy.vars {
		ns = append(ns, n)
	}
	sort.Strings(ns)
	for _, n := range ns {
		fmt.Fprintf(&sb, "(declare-fun %s () %s)\n", sanitize(n), sortStr(sy.vars[n], real))
	}
	ns = ns[:0]
	for n := range sy.apps {
		ns = append(ns, n)
	}
	sort.Strings(ns)
	for _, n := range ns {
		if defined[n] {
			continue
		}
		a := sy.apps[n]
		sb.WriteString("(declare-fun " + sanitize(n) + " (")
		for i, x := range a.Args {
			if i > 0 {
				sb.WriteString(" ")
			}
			sb.WriteString(sortStr(x.S, real))
		}
		fmt.Fprintf(&sb, ") %s)\n", sortStr(a.S, real))
	}
	return sb.String()
}

// substitute variables by name (memoised over the term DAG; bound variables have unique names and
// are never substituted).
func subst(t *Term, m map[string]*Term) *Term {
	return substMemo(t, m, map[*Term]*Term{})
}

func substMemo(t *Term, m map[string]*Term, memo map[*Term]*Term) *Term {
	if r, ok := memo[t]; ok {
		return r
	}
	var res *Term
	switch t.Op {
	case "var":
		if r, ok := m[t.Name]; ok {
			res = r
		} else {
			res = t
		}
	case "const", "true", "false":
		res = t
	case "forall", "exists":
		body := substMemo(t.Args[0], m, memo)
		if body == t.Args[0] {
			res = t
		} else if t.Op == "forall" {
			res = Forall(t.Bound, body)
		} else {
			res = Exists(t.Bound, body)
		}
	default:
		args := make([]*Term, len(t.Args))
		ch := false
		for i, a := range t.Args {
			args[i] = substMemo(a, m, memo)
			if args[i] != a {
				ch = true
			}
		}
		if !ch {
			res = t
		} else {
			res = rebuild(t, args)
		}
	}
	memo[t] = res
	return res
}

// rebuild re-applies the simplifying constructors.
func rebuild(t *Term, a []*Term) *Term {
	switch t.Op {
	case "+":
		r := a[0]
		for _, x := range a[1:] {
			r = Add(r, x)
		}
		return r
	case "-":
		return Sub(a[0], a[1])
	case "*":
		return Mul(a[0], a[1])
	case "div":
		return EDiv(a[0], a[1])
	case "mod":
		return EMod(a[0], a[1])
	case "<":
		return Lt(a[0], a[1])
	case "<=":
		return Le(a[0], a[1])
	case "=":
		return Eq(a[0], a[1])
	case "not":
		return Not(a[0])
	case "and":
		return And(a...)
	case "or":
		return Or(a...)
	case "=>":
		return Implies(a[0], a[1])
	case "ite":
		return Ite(a[0], a[1], a[2])
	case "select":
		return Select(a[0], a[1])
	case "store":
		return Store(a[0], a[1], a[2])
	case "constarr":
		return ConstArr(a[0])
	case "bvadd", "bvsub", "bvmul", "bvand", "bvor", "bvxor", "bvshl", "bvlshr", "bvashr", "bvudiv", "bvurem":
		return BVBin(t.Op, a[0], a[1])
	case "bvnot":
		return BVNot(a[0])
	case "bvneg":
		return BVNeg(a[0])
	case "bvult", "bvule", "bvslt", "bvsle":
		return BVCmp(t.Op, a[0], a[1])
	case "extract":
		return Extract(t.P1, t.P2, a[0])
	case "zext":
		return ZExt(t.P1, a[0])
	case "sext":
		return SExt(t.P1, a[0])
	case "bv2nat":
		return BV2Nat(a[0])
	case "int2bv":
		return Int2BV(t.P1, a[0])
	case "concat":
		return Concat(a[0], a[1])
	}
	n := *t
	n.Args = a
	return intern(&n)
}

// ---- printing with sharing: closed sub-terms that occur more than once become define-funs.

type sharer struct {
	count  map[*Term]int
	open   map[*Term]bool
	boundN map[string]bool
	names  map[*Term]string
	order  []*Term
	size   map[*Term]int
	real   bool
}

func newSharer() *sharer {
	return &sharer{count: map[*Term]int{}, open: map[*Term]bool{}, boundN: map[string]bool{}, names: map[*Term]string{}, size: map[*Term]int{}}
}

func (sh *sharer) collectBound(t *Term, seen map[*Term]bool) {
	if seen[t] {
		return
	}
	seen[t] = true
	for _, b := range t.Bound {
		sh.boundN[b.Name] = true
	}
	for _, a := range t.Args {
		sh.collectBound(a, seen)
	}
}

// visit counts references; returns whether t mentions a quantifier-bound variable.
func (sh *sharer) visit(t *Term) bool {
	sh.count[t]++
	if sh.count[t] > 1 {
		return sh.open[t]
	}
	op := false
	sz := 1
	if t.Op == "var" && sh.boundN[t.Name] {
		op = true
	}
	for _, a := range t.Args {
		if sh.visit(a) {
			op = true
		}
		sz += sh.size[a]
	}
	sh.open[t] = op
	sh.size[t] = sz
	sh.order = append(sh.order, t) // post-order
	return op
}

func (sh *sharer) assign() {
	n := 0
	for _, t := range sh.order {
		if sh.count[t] > 1 && !sh.open[t] && sh.size[t] >= 4 && t.Op != "const" && t.Op != "var" && len(t.Args) > 0 {
			n++
			sh.names[t] = fmt.Sprintf("$s%d", n)
		}
	}
}

func (sh *sharer) write(t *Term, sb *strings.Builder, top bool) {
	if !top {
		if nm, ok := sh.names[t]; ok {
			sb.WriteString(nm)
			return
		}
	}
	switch t.Op {
	case "true", "false", "const", "var":
		if sh.real && t.Op == "const" && t.S == IntS {
			if t.V.Sign() < 0 {
				sb.WriteString("(- " + new(big.Int).Neg(t.V).String() + ".0)")
			} else {
				sb.WriteString(t.V.String() + ".0")
			}
			return
		}
		t.write(sb)
	case "constarr":
		fmt.Fprintf(sb, "((as const %s) ", t.S)
		sh.write(t.Args[0], sb, false)
		sb.WriteString(")")
	case "app":
		if len(t.Args) == 0 {
			sb.WriteString(sanitize(t.Name))
			return
		}
		sb.WriteString("(" + sanitize(t.Name))
		for _, a := range t.Args {
			sb.WriteString(" ")
			sh.write(a, sb, false)
		}
		sb.WriteString(")")
	case "forall", "exists":
		sb.WriteString("(" + t.Op + " (")
		for _, b := range t.Bound {
			fmt.Fprintf(sb, "(%s %s)", sanitize(b.Name), b.S)
		}
		sb.WriteString(") ")
		sh.write(t.Args[0], sb, false)
		sb.WriteString(")")
	case "extract":
		fmt.Fprintf(sb, "((_ extract %d %d) ", t.P1, t.P2)
		sh.write(t.Args[0], sb, false)
		sb.WriteString(")")
	case "zext":
		fmt.Fprintf(sb, "((_ zero_extend %d) ", t.P1)
		sh.write(t.Args[0], sb, false)
		sb.WriteString(")")
	case "sext":
		fmt.Fprintf(sb, "((_ sign_extend %d) ", t.P1)
		sh.write(t.Args[0], sb, false)
		sb.WriteString(")")
	case "int2bv":
		fmt.Fprintf(sb, "((_ int2bv %d) ", t.P1)
		sh.write(t.Args[0], sb, false)
		sb.WriteString(")")
	default:
		sb.WriteString("(" + t.Op)
		for _, a := range t.Args {
			sb.WriteString(" ")
			sh.write(a, sb, false)
		}
		sb.WriteString(")")
	}
}

func (sh *sharer) defs(sb *strings.Builder) {
	for _, t := range sh.order {
		if nm, ok := sh.names[t]; ok {
			fmt.Fprintf(sb, "(define-fun %s () %s ", nm, sortStr(t.S, sh.real))
			sh.write(t, sb, true)
			sb.WriteString(")\n")
		}
	}
}
