package main

// Cheap interval analysis used to drop the wrap-around `mod 2^w` of fixed-width arithmetic when the
// mathematical result provably fits. Bounds of variables come from simple atoms of the path
// condition (x <= c, c <= x, x < c, x = c); everything else is structural. Sound: every bound
// used is implied by the assumptions of the current path.

import (
	"go/types"
	"math/big"
	"strings"
)

type ival struct{ lo, hi *big.Int }

type boundCache struct {
	npc  int
	last *Term
	vars map[*Term]ival
}

func (e *Env) varBounds() map[*Term]ival {
	st := e.st
	var last *Term
	if len(st.pc) > 0 {
		last = st.pc[len(st.pc)-1]
	}
	if st.bc != nil && st.bc.npc == len(st.pc) && st.bc.last == last {
		return st.bc.vars
	}
	m := map[*Term]ival{}
	upd := func(v *Term, lo, hi *big.Int) {
		if v.Op == "const" {
			return
		}
		cur := m[v]
		if lo != nil && (cur.lo == nil || lo.Cmp(cur.lo) > 0) {
			cur.lo = lo
		}
		if hi != nil && (cur.hi == nil || hi.Cmp(cur.hi) < 0) {
			cur.hi = hi
		}
		m[v] = cur
	}
	one := big.NewInt(1)
	var atom func(p *Term)
	atom = func(p *Term) {
		switch p.Op {
		case "and":
			for _, a := range p.Args {
				atom(a)
			}
		case "not":
			q := p.Args[0]
			if q.Op == "or" {
				for _, d := range q.Args {
					atom(Not(d))
				}
				return
			}
			if q.Op == "not" {
				atom(q.Args[0])
				return
			}
			if (q.Op == "<" || q.Op == "<=") && q.Args[0].S == IntS {
				a, b := q.Args[0], q.Args[1]
				if q.Op == "<" { // not (a < b): b <= a
					if b.Op == "const" {
						upd(a, b.V, nil)
					}
					if a.Op == "const" {
						upd(b, nil, a.V)
					}
				} else { // not (a <= b): b < a
					if b.Op == "const" {
						upd(a, new(big.Int).Add(b.V, one), nil)
					}
					if a.Op == "const" {
						upd(b, nil, new(big.Int).Sub(a.V, one))
					}
				}
			}
		case "<=":
			a, b := p.Args[0], p.Args[1]
			if b.Op == "const" && a.S == IntS {
				upd(a, nil, b.V)
			}
			if a.Op == "const" && b.S == IntS {
				upd(b, a.V, nil)
			}
		case "<":
			a, b := p.Args[0], p.Args[1]
			if b.Op == "const" && a.S == IntS {
				upd(a, nil, new(big.Int).Sub(b.V, one))
			}
			if a.Op == "const" && b.S == IntS {
				upd(b, new(big.Int).Add(a.V, one), nil)
			}
		case "=":
			a, b := p.Args[0], p.Args[1]
			if a.S != IntS {
				return
			}
			if b.Op == "const" {
				upd(a, b.V, b.V)
			}
			if a.Op == "const" {
				upd(b, a.V, a.V)
			}
		}
	}
	for _, p := range st.pc {
		atom(p)
	}
	st.bc = &boundCache{npc: len(st.pc), last: last, vars: m}
	return m
}

func (e *Env) termBounds(t *Term, vb map[*Term]ival, memo map[*Term]*ival, depth int) *ival {
	if r, ok := memo[t]; ok {
		return r
	}
	var res *ival
	defer func() { memo[t] = res }()
	if t.S != IntS || depth > 400 {
		return nil
	}
	if t.Op == "const" {
		res = &ival{t.V, t.V}
		return res
	}
	// a bound recorded for this very term (variables, selects, applications)
	var known *ival
	if b, ok := vb[t]; ok && b.lo != nil && b.hi != nil {
		known = &ival{b.lo, b.hi}
	} else if t.Op == "var" && (strings.Contains(t.Name, ".len!") || strings.Contains(t.Name, ".cap!")) {
		lo, hi := big.NewInt(0), new(big.Int).SetUint64(1<<63-1)
		if ok && b.lo != nil && b.lo.Sign() > 0 {
			lo = b.lo
		}
		if ok && b.hi != nil {
			hi = b.hi
		}
		known = &ival{lo, hi}
	}
	var st *ival
	sub := func(i int) *ival { return e.termBounds(t.Args[i], vb, memo, depth+1) }
	switch t.Op {
	case "+":
		a, b := sub(0), sub(1)
		if a != nil && b != nil {
			st = &ival{new(big.Int).Add(a.lo, b.lo), new(big.Int).Add(a.hi, b.hi)}
		}
	case "-":
		if len(t.Args) == 2 {
			a, b := sub(0), sub(1)
			if a != nil && b != nil {
				st = &ival{new(big.Int).Sub(a.lo, b.hi), new(big.Int).Sub(a.hi, b.lo)}
			}
		}
	case "*":
		a, b := sub(0), sub(1)
		if a != nil && b != nil {
			c := []*big.Int{new(big.Int).Mul(a.lo, b.lo), new(big.Int).Mul(a.lo, b.hi), new(big.Int).Mul(a.hi, b.lo), new(big.Int).Mul(a.hi, b.hi)}
			lo, hi := c[0], c[0]
			for _, v := range c[1:] {
				if v.Cmp(lo) < 0 {
					lo = v
				}
				if v.Cmp(hi) > 0 {
					hi = v
				}
			}
			st = &ival{lo, hi}
		}
	case "mod":
		if m := t.Args[1]; m.Op == "const" && m.V.Sign() > 0 {
			st = &ival{big.NewInt(0), new(big.Int).Sub(m.V, big.NewInt(1))}
			if a := sub(0); a != nil && a.lo.Sign() >= 0 && a.hi.Cmp(m.V) < 0 {
				st = a
			}
		}
	case "div":
		if m := t.Args[1]; m.Op == "const" && m.V.Sign() > 0 {
			if a := sub(0); a != nil {
				lo, hi := new(big.Int), new(big.Int)
				lo.Div(a.lo, m.V)
				hi.Div(a.hi, m.V)
				st = &ival{lo, hi}
			}
		}
	case "bv2nat":
		a := t.Args[0]
		hi := new(big.Int).Sub(new(big.Int).Lsh(big.NewInt(1), uint(a.S.W)), big.NewInt(1))
		if a.Op == "bvand" {
			for _, m := range a.Args {
				if m.Op == "const" && m.V.Cmp(hi) < 0 {
					hi = m.V
				}
			}
		}
		st = &ival{big.NewInt(0), hi}
	case "ite":
		a, b := e.termBounds(t.Args[1], vb, memo, depth+1), e.termBounds(t.Args[2], vb, memo, depth+1)
		if a != nil && b != nil {
			lo, hi := a.lo, a.hi
			if b.lo.Cmp(lo) < 0 {
				lo = b.lo
			}
			if b.hi.Cmp(hi) > 0 {
				hi = b.hi
			}
			st = &ival{lo, hi}
		}
	}
	switch {
	case st != nil && known != nil:
		lo, hi := st.lo, st.hi
		if known.lo.Cmp(lo) > 0 {
			lo = known.lo
		}
		if known.hi.Cmp(hi) < 0 {
			hi = known.hi
		}
		res = &ival{lo, hi}
	case st != nil:
		res = st
	default:
		res = known
	}
	return res
}

// wrapFit: wrap t into the fixed-width type typ unless its value provably fits.
func (e *Env) wrapFit(t *Term, typ types.Type) *Term {
	ii, ok := intInfoOf(typ)
	if !ok || t.Op == "const" || e.st == nil {
		return e.R().wrap(t, typ)
	}
	b := e.termBounds(t, e.varBounds(), map[*Term]*ival{}, 0)
	if b != nil && b.lo.Cmp(ii.min()) >= 0 && b.hi.Cmp(ii.max()) <= 0 {
		return t
	}
	return e.R().wrap(t, typ)
}
