package main

// Property-specific additions to the generic contract check (labelled stand-ins, cross-file checks).

import (
	"bytes"
	"context"
	"encoding/json"
	"fmt"
	"os"
	"os/exec"
	"path/filepath"
	"strings"
	"time"
)

type ExtraResult struct {
	Obls        []*Obl
	Violations  []string
	Trusted     []string
	Assumptions []string
	Coverage    map[string]interface{}
	Level       string
	Explanation string
}

func runExtras(prop string, u *Universe, opt *Options) *ExtraResult {
	r := &ExtraResult{Coverage: map[string]interface{}{}}
	switch prop {
	case "C16":
		extraC16(u, opt, r)
	}
	return r
}

// runOverlayTest runs an in-package Go test injected with -overlay (nothing is written to /repo).
func runOverlayTest(pkgDir, fileName, src, runPattern string, timeout time.Duration) (string, error) {
	scratch, err := os.MkdirTemp("", "govc-overlay-")
	if err != nil {
		return "", err
	}
	defer os.RemoveAll(scratch)
	testFile := filepath.Join(scratch, "x_test.go")
	os.WriteFile(testFile, []byte(src), 0o644)
	ov := map[string]map[string]string{"Replace": {filepath.Join(pkgDir, fileName): testFile}}
	ovb, _ := json.Marshal(ov)
	ovFile := filepath.Join(scratch, "ov.json")
	os.WriteFile(ovFile, ovb, 0o644)
	ctx, cancel := context.WithTimeout(context.Background(), timeout+30*time.Second)
	defer cancel()
	cmd := exec.CommandContext(ctx, "go", "test", "-overlay", ovFile, "-vet=off", "-count=1", "-timeout", fmt.Sprint(timeout), "-run", runPattern, "-v", ".")
	cmd.Dir = pkgDir
	cmd.Env = append(os.Environ(), "GOFLAGS=-mod=mod", "GOPROXY=off", "GOSUMDB=off", "GOTOOLCHAIN=local")
	var buf bytes.Buffer
	cmd.Stdout = &buf
	cmd.Stderr = &buf
	err = cmd.Run()
	return buf.String(), err
}

// extraC16: the BCH distance fact behind C16 (no error pattern of weight 1..4 inside a window of 89
// consecutive 5-bit symbols has a zero syndrome) is beyond the SMT solvers for weights 3 and 4. It is
// established by a complete enumeration that drives the real bech32Polymod: a labelled stand-in,
// exhaustive for this finite lemma but computation, not deduction.
func extraC16(u *Universe, opt *Options, r *ExtraResult) {
	window := 89
	src := `package bech32

import (
	"fmt"
	"os"
	"testing"
)

// syndrome of error value e (1..31) at distance p (0 = last symbol) from the end, through the real
// bech32Polymod: polymod(x ^ err) ^ polymod(x) with x = all zeros of length n.
func govcSyndromes(n int) [][]int {
	zero := make([]byte, n)
	base := bech32Polymod(zero)
	s := make([][]int, n)
	for p := 0; p < n; p++ {
		s[p] = make([]int, 32)
		for e := 1; e < 32; e++ {
			v := make([]byte, n)
			v[n-1-p] = byte(e)
			s[p][e] = bech32Polymod(v) ^ base
		}
	}
	return s
}

func govcBCH(n int) (patterns int, zero [][4][2]int) {
	s := govcSyndromes(n)
	type pe struct{ p, e int }
	// weight 1
	single := map[int]pe{}
	for p := 0; p < n; p++ {
		for e := 1; e < 32; e++ {
			patterns++
			if s[p][e] == 0 {
				zero = append(zero, [4][2]int{{p, e}})
			}
			if q, dup := single[s[p][e]]; dup && q.p != p {
				// weight 2 zero syndrome
				zero = append(zero, [4][2]int{{p, e}, {q.p, q.e}})
			}
			single[s[p][e]] = pe{p, e}
		}
	}
	// pairs
	type pr struct{ p1, e1, p2, e2 int }
	pairs := map[int][]pr{}
	for p1 := 0; p1 < n; p1++ {
		for p2 := p1 + 1; p2 < n; p2++ {
			for e1 := 1; e1 < 32; e1++ {
				for e2 := 1; e2 < 32; e2++ {
					patterns++
					x := s[p1][e1] ^ s[p2][e2]
					if x == 0 {
						zero = append(zero, [4][2]int{{p1, e1}, {p2, e2}})
					}
					// weight 3: pair + single at a third position
					if q, ok := single[x]; ok && q.p != p1 && q.p != p2 {
						zero = append(zero, [4][2]int{{p1, e1}, {p2, e2}, {q.p, q.e}})
					}
					// weight 4: two disjoint pairs with equal sums
					for _, o := range pairs[x] {
						if o.p1 != p1 && o.p1 != p2 && o.p2 != p1 && o.p2 != p2 {
							zero = append(zero, [4][2]int{{p1, e1}, {p2, e2}, {o.p1, o.e1}, {o.p2, o.e2}})
						}
					}
					pairs[x] = append(pairs[x], pr{p1, e1, p2, e2})
				}
			}
		}
	}
	return
}

func TestGovcBCH(t *testing.T) {
	n := %d
	pat, zero := govcBCH(n)
	fmt.Fprintf(os.Stdout, "\nGOVC-BCH window=%%d singles_and_pairs=%%d zero=%%d\n", n, pat, len(zero))
	for i, z := range zero {
		if i < 5 {
			fmt.Fprintf(os.Stdout, "GOVC-BCH-ZERO %%v\n", z)
		}
	}
}
`
	pkgDir := filepath.Join(opt.Repo, "pkg", "bech32")
	run := func(w int) (patterns, zeros int, out string, ok bool) {
		o, _ := runOverlayTest(pkgDir, "zz_govc_bch_test.go", fmt.Sprintf(src, w), "^TestGovcBCH$", 10*time.Minute)
		for _, l := range strings.Split(o, "\n") {
			if strings.HasPrefix(l, "GOVC-BCH window=") {
				var ww int
				if _, err := fmt.Sscanf(l, "GOVC-BCH window=%d singles_and_pairs=%d zero=%d", &ww, &patterns, &zeros); err == nil {
					ok = true
				}
			}
		}
		return patterns, zeros, o, ok
	}
	t0 := time.Now()
	pat, zeros, out, ok := run(window)
	st := map[string]interface{}{"name": "bch_distance_5_window_89", "bound": "all error patterns of weight 1..4 over 89 consecutive symbols (31 non-zero values each), by meet-in-the-middle over all single-symbol syndromes and all two-symbol sums computed with the real bech32Polymod",
		"exhaustive": true, "enumerated_singles_and_pairs": pat, "zero_syndromes": zeros, "time_s": time.Since(t0).Seconds()}
	r.Coverage["bounded_standins"] = []interface{}{st}
	r.Level = "other"
	r.Explanation = "mixed: (1) deductive part, discharged by SMT: GF(2)-linearity of the BIP-173 polymod step (lemma pm_linear), the same-kind lemma for human-readable-part characters, and the C04 contract of Decode (accept => polymod over expand(lower(hrp)) ++ data == 1, proved for all strings); together they reduce C16 to the finite statement that no error pattern of weight 1..4 within 89 consecutive symbols has syndrome 0. (2) that finite statement is checked by a complete enumeration through the real bech32Polymod (bounded stand-in, exhaustive for the lemma, labelled as computation rather than deduction; not counted under discharged)."
	if !ok {
		r.Violations = append(r.Violations, "UNDECIDED-C16 enumeration did not run: "+truncate(out, 400))
		return
	}
	if zeros > 0 {
		path := filepath.Join(opt.Verif, "replays", "C16", "bch_zero_syndrome.json")
		os.MkdirAll(filepath.Dir(path), 0o755)
		data, _ := json.MarshalIndent(map[string]interface{}{"property": "C16", "obligation": "standin.bch_distance_5_window_89", "verdict": "error patterns of weight <= 4 with zero syndrome exist: replacing these symbols of a valid string gives another string with a valid checksum", "output": out}, "", " ")
		os.WriteFile(path, data, 0o644)
		r.Violations = append(r.Violations, fmt.Sprintf("VIOLATION property=C16 replay=%s obligation=standin.bch_distance_5_window_89", path))
	}
	if opt.Tier == "thorough" {
		// sanity of the enumerator: at window 90 weight-4 zero syndromes exist (BIP-173's length limit)
		_, z90, _, ok90 := run(90)
		r.Coverage["standin_selfcheck"] = map[string]interface{}{"window": 90, "zero_syndromes_found": z90, "ran": ok90, "expected": "> 0: shows the enumeration can fail and that 89 is the exact limit"}
	}
}
