package main

// Property-specific additions to the generic contract check (stand-ins, cross-file checks).

type ExtraResult struct {
	Obls        []*Obl
	Violations  []string
	Trusted     []string
	Assumptions []string
	Coverage    map[string]interface{}
	Level       string
	Explanation string
}

func runExtras(prop string, u *Universe, opt *Options) *ExtraResult {
	r := &ExtraResult{Coverage: map[string]interface{}{}}
	return r
}
