package main

// Plan 9 amd64 assembly front end (C20). Each TEXT routine of a .s file under /repo/pkg is
// transliterated, mechanically and on every run, into a Go function <name>AsmModel that is added to
// the package through the loader's overlay (nothing is written to /repo) and then verified like any
// other function under contract. Semantics used, per mnemonic (64-bit registers are Go uint):
//   MOVQ src, dst   copy (register, immediate, FP argument, memory operand)
//   XORQ/ANDQ/ORQ/ADDQ/SUBQ src, dst   dst = dst op src          NOTQ r   r = ^r
//   DECQ r          r = r - 1 (sets ZF for a following JNZ)
//   CMPQ a, b ; JL L   jump when int64(a) < int64(b)              XCHGQ a, b   swap
//   RET             return
// A memory operand disp(BASE)(IDX*8) with BASE holding a *[N]uint argument becomes the array access
// BASE[disp/8 + int(int64(IDX))]; disp must be a multiple of 8 and the scale 8. The bounds obligation
// of that access is exactly "the instruction touches only that buffer". Backward conditional jumps
// to labels become do-while loops; anything else is unsupported (the routine gets no model and the
// property is UNDECIDED). Dropped: TEXT flags / frame size, NOSPLIT, #include lines, comments.

import (
	"fmt"
	"go/ast"
	"go/parser"
	"go/token"
	"os"
	"path/filepath"
	"regexp"
	"strconv"
	"strings"
)

type asmIns struct {
	label string
	op    string
	args  []string
	line  int
}

var textRe = regexp.MustCompile(`^TEXT\s+·(\w+)\(SB\)`)

// asmModels builds the overlay file for one package directory; returns "" when there is no .s file.
func asmModels(dir string) (string, []string) {
	ents, err := os.ReadDir(dir)
	if err != nil {
		return "", nil
	}
	var notes []string
	var funcs []string
	pkgName := ""
	for _, e := range ents {
		if !strings.HasSuffix(e.Name(), "_amd64.s") {
			continue
		}
		data, err := os.ReadFile(filepath.Join(dir, e.Name()))
		if err != nil {
			continue
		}
		routines := splitRoutines(string(data))
		for name, ins := range routines {
			stub, pn := findStub(dir, name)
			if pn != "" {
				pkgName = pn
			}
			if stub == nil {
				notes = append(notes, fmt.Sprintf("%s: no Go declaration for ·%s", e.Name(), name))
				continue
			}
			src, err := translateRoutine(name, stub, ins)
			if err != nil {
				notes = append(notes, fmt.Sprintf("%s: ·%s: %v", e.Name(), name, err))
				continue
			}
			funcs = append(funcs, src)
		}
	}
	if len(funcs) == 0 || pkgName == "" {
		return "", notes
	}
	return "//go:build verif\n\npackage " + pkgName + "\n\n" + strings.Join(funcs, "\n"), notes
}

func splitRoutines(src string) map[string][]asmIns {
	res := map[string][]asmIns{}
	cur := ""
	for ln, raw := range strings.Split(src, "\n") {
		l := raw
		if i := strings.Index(l, "//"); i >= 0 {
			l = l[:i]
		}
		l = strings.TrimSpace(l)
		if l == "" || strings.HasPrefix(l, "#") {
			continue
		}
		if m := textRe.FindStringSubmatch(l); m != nil {
			cur = m[1]
			res[cur] = nil
			continue
		}
		if cur == "" {
			continue
		}
		if strings.HasSuffix(l, ":") && !strings.ContainsAny(l, " \t,") {
			res[cur] = append(res[cur], asmIns{label: strings.TrimSuffix(l, ":"), line: ln + 1})
			continue
		}
		f := strings.Fields(l)
		op := f[0]
		rest := strings.TrimSpace(strings.TrimPrefix(l, op))
		var args []string
		if rest != "" {
			for _, a := range strings.Split(rest, ",") {
				args = append(args, strings.TrimSpace(a))
			}
		}
		res[cur] = append(res[cur], asmIns{op: op, args: args, line: ln + 1})
	}
	return res
}

// findStub: the body-less Go declaration of the routine (gives argument names and types).
func findStub(dir, name string) (*ast.FuncDecl, string) {
	fset := token.NewFileSet()
	ents, _ := os.ReadDir(dir)
	for _, e := range ents {
		if !strings.HasSuffix(e.Name(), ".go") || strings.HasSuffix(e.Name(), "_test.go") {
			continue
		}
		f, err := parser.ParseFile(fset, filepath.Join(dir, e.Name()), nil, 0)
		if err != nil {
			continue
		}
		for _, d := range f.Decls {
			if fd, ok := d.(*ast.FuncDecl); ok && fd.Name.Name == name && fd.Body == nil {
				return fd, f.Name.Name
			}
		}
	}
	return nil, ""
}

var memRe = regexp.MustCompile(`^(-?\w*)\((\w+)\)(?:\((\w+)\*(\d+)\))?$`)
var fpRe = regexp.MustCompile(`^(\w+)\+(\d+)\(FP\)$`)

func translateRoutine(name string, stub *ast.FuncDecl, ins []asmIns) (string, error) {
	// parameters
	type param struct{ name, typ string }
	var params []param
	ptrParam := map[string]string{}
	for _, f := range stub.Type.Params.List {
		ts := typeText(f.Type)
		for _, n := range f.Names {
			params = append(params, param{n.Name, ts})
			if strings.HasPrefix(ts, "*[") {
				ptrParam[n.Name] = ts
			}
		}
	}
	if stub.Type.Results != nil && len(stub.Type.Results.List) > 0 {
		return "", fmt.Errorf("routines with results are not supported")
	}
	// register kinds: pointer registers are those loaded from pointer arguments
	ptrReg := map[string]string{}
	for _, in := range ins {
		if in.op == "MOVQ" && len(in.args) == 2 {
			if m := fpRe.FindStringSubmatch(in.args[0]); m != nil {
				if t, ok := ptrParam[m[1]]; ok {
					ptrReg[in.args[1]] = t
				}
			}
		}
	}
	intRegs := map[string]bool{}
	isReg := func(s string) bool {
		return regexp.MustCompile(`^(AX|BX|CX|DX|SI|DI|BP|R8|R9|R1[0-5])$`).MatchString(s)
	}
	for _, in := range ins {
		for _, a := range in.args {
			if isReg(a) {
				if _, p := ptrReg[a]; !p {
					intRegs[a] = true
				}
			}
			if m := memRe.FindStringSubmatch(a); m != nil && m[3] != "" {
				intRegs[m[3]] = true
			}
		}
	}
	operand := func(a string, store bool) (string, error) {
		if strings.HasPrefix(a, "$") {
			v, err := strconv.ParseInt(strings.TrimPrefix(a, "$"), 0, 64)
			if err != nil {
				return "", fmt.Errorf("immediate %s", a)
			}
			return fmt.Sprintf("uint(%d)", v), nil
		}
		if isReg(a) {
			return a, nil
		}
		if m := fpRe.FindStringSubmatch(a); m != nil {
			return m[1], nil
		}
		if m := memRe.FindStringSubmatch(a); m != nil {
			disp := int64(0)
			if m[1] != "" {
				v, err := strconv.ParseInt(m[1], 0, 64)
				if err != nil {
					return "", fmt.Errorf("displacement in %s", a)
				}
				disp = v
			}
			base := m[2]
			if _, ok := ptrReg[base]; !ok {
				return "", fmt.Errorf("memory operand %s: base register does not hold a buffer argument", a)
			}
			if disp%8 != 0 {
				return "", fmt.Errorf("memory operand %s: displacement is not a multiple of 8", a)
			}
			// govcZero (a zero-valued variable) keeps constant indices out of the compiler's static
			// bounds check, so an out-of-buffer displacement is reported as a failed bounds obligation
			idx := fmt.Sprintf("%d+govcZero", disp/8)
			if m[3] != "" {
				if m[4] != "8" {
					return "", fmt.Errorf("memory operand %s: scale must be 8", a)
				}
				idx = fmt.Sprintf("%d+int(int64(%s))", disp/8, m[3])
			}
			return fmt.Sprintf("%s[%s]", base, idx), nil
		}
		return "", fmt.Errorf("operand %s", a)
	}
	// structure: backward conditional jumps become do-while loops
	var emit func(lo, hi int, indent string) ([]string, error)
	labelPos := map[string]int{}
	for i, in := range ins {
		if in.label != "" {
			labelPos[in.label] = i
		}
	}
	isJump := func(op string) bool { return op == "JL" || op == "JNZ" || op == "JMP" || strings.HasPrefix(op, "J") }
	emit = func(lo, hi int, indent string) ([]string, error) {
		var out []string
		for i := lo; i < hi; i++ {
			in := ins[i]
			if in.label != "" {
				// find the last backward jump to this label inside [i, hi)
				last := -1
				for j := i + 1; j < hi; j++ {
					if isJump(ins[j].op) && len(ins[j].args) == 1 && ins[j].args[0] == in.label {
						last = j
					}
				}
				if last < 0 {
					return nil, fmt.Errorf("line %d: label %s is not the target of a backward jump", in.line, in.label)
				}
				if last < 1 {
					return nil, fmt.Errorf("line %d: malformed loop", in.line)
				}
				// condition from the flag-setting instruction just before the jump
				j := ins[last]
				prev := ins[last-1]
				var cond string
				bodyHi := last - 1
				switch {
				case j.op == "JL" && prev.op == "CMPQ" && len(prev.args) == 2:
					a, err := operand(prev.args[0], false)
					if err != nil {
						return nil, err
					}
					b, err := operand(prev.args[1], false)
					if err != nil {
						return nil, err
					}
					cond = fmt.Sprintf("int64(%s) < int64(%s)", a, b)
				case j.op == "JNZ" && prev.op == "DECQ" && len(prev.args) == 1:
					cond = fmt.Sprintf("%s != 0", prev.args[0])
					bodyHi = last // DECQ is part of the body
				default:
					return nil, fmt.Errorf("line %d: unsupported jump %s after %s", j.line, j.op, prev.op)
				}
				body, err := emit(i+1, bodyHi, indent+"\t")
				if err != nil {
					return nil, err
				}
				out = append(out, indent+"for { // "+in.label)
				out = append(out, body...)
				out = append(out, indent+"\tif !("+cond+") {", indent+"\t\tbreak", indent+"\t}", indent+"}")
				i = last
				continue
			}
			if isJump(in.op) {
				return nil, fmt.Errorf("line %d: jump %s is not a loop back-edge", in.line, in.op)
			}
			switch in.op {
			case "MOVQ":
				if len(in.args) != 2 {
					return nil, fmt.Errorf("line %d: MOVQ needs 2 operands", in.line)
				}
				s, err := operand(in.args[0], false)
				if err != nil {
					return nil, fmt.Errorf("line %d: %v", in.line, err)
				}
				d, err := operand(in.args[1], true)
				if err != nil {
					return nil, fmt.Errorf("line %d: %v", in.line, err)
				}
				out = append(out, indent+d+" = "+s)
			case "XORQ", "ANDQ", "ORQ", "ADDQ", "SUBQ":
				if len(in.args) != 2 {
					return nil, fmt.Errorf("line %d: %s needs 2 operands", in.line, in.op)
				}
				s, err := operand(in.args[0], false)
				if err != nil {
					return nil, fmt.Errorf("line %d: %v", in.line, err)
				}
				d, err := operand(in.args[1], true)
				if err != nil {
					return nil, fmt.Errorf("line %d: %v", in.line, err)
				}
				if _, p := ptrReg[in.args[1]]; p {
					return nil, fmt.Errorf("line %d: arithmetic on a buffer pointer", in.line)
				}
				sym := map[string]string{"XORQ": "^", "ANDQ": "&", "ORQ": "|", "ADDQ": "+", "SUBQ": "-"}[in.op]
				out = append(out, fmt.Sprintf("%s%s = %s %s %s", indent, d, d, sym, s))
			case "NOTQ":
				out = append(out, fmt.Sprintf("%s%s = ^%s", indent, in.args[0], in.args[0]))
			case "DECQ":
				out = append(out, fmt.Sprintf("%s%s = %s - 1", indent, in.args[0], in.args[0]))
			case "XCHGQ":
				_, p1 := ptrReg[in.args[0]]
				_, p2 := ptrReg[in.args[1]]
				if p1 != p2 {
					return nil, fmt.Errorf("line %d: XCHGQ between a pointer and an integer register", in.line)
				}
				out = append(out, fmt.Sprintf("%s%s, %s = %s, %s", indent, in.args[0], in.args[1], in.args[1], in.args[0]))
			case "CMPQ":
				// consumed by the following jump
				if i+1 >= hi+1 || i+1 >= len(ins) || !isJump(ins[i+1].op) {
					return nil, fmt.Errorf("line %d: CMPQ without a following jump", in.line)
				}
			case "RET":
				out = append(out, indent+"return")
			default:
				return nil, fmt.Errorf("line %d: unsupported instruction %s", in.line, in.op)
			}
		}
		return out, nil
	}
	body, err := emit(0, len(ins), "\t")
	if err != nil {
		return "", err
	}
	var sb strings.Builder
	fmt.Fprintf(&sb, "// %sAsmModel is generated from the TEXT ·%s routine by govc on every run.\n", name, name)
	fmt.Fprintf(&sb, "func %sAsmModel(", name)
	for i, p := range params {
		if i > 0 {
			sb.WriteString(", ")
		}
		fmt.Fprintf(&sb, "%s %s", p.name, p.typ)
	}
	sb.WriteString(") {\n")
	sb.WriteString("\tvar govcZero int\n\t_ = govcZero\n")
	for r, t := range ptrReg {
		fmt.Fprintf(&sb, "\tvar %s %s\n", r, t)
	}
	var irs []string
	for r := range intRegs {
		irs = append(irs, r)
	}
	sortStrings(irs)
	if len(irs) > 0 {
		fmt.Fprintf(&sb, "\tvar %s uint\n", strings.Join(irs, ", "))
		for _, r := range irs {
			fmt.Fprintf(&sb, "\t_ = %s\n", r)
		}
	}
	for _, l := range body {
		sb.WriteString(l + "\n")
	}
	sb.WriteString("}\n")
	return sb.String(), nil
}

func sortStrings(s []string) {
	for i := range s {
		for j := i + 1; j < len(s); j++ {
			if s[j] < s[i] {
				s[i], s[j] = s[j], s[i]
			}
		}
	}
}

func typeText(e ast.Expr) string {
	switch t := e.(type) {
	case *ast.Ident:
		return t.Name
	case *ast.StarExpr:
		return "*" + typeText(t.X)
	case *ast.ArrayType:
		if t.Len == nil {
			return "[]" + typeText(t.Elt)
		}
		if bl, ok := t.Len.(*ast.BasicLit); ok {
			return "[" + bl.Value + "]" + typeText(t.Elt)
		}
		if id, ok := t.Len.(*ast.Ident); ok {
			return "[" + id.Name + "]" + typeText(t.Elt)
		}
	case *ast.SelectorExpr:
		return typeText(t.X) + "." + t.Sel.Name
	}
	return "?"
}
