package main

// Expression evaluation: Go expressions of the code under contract and contract expressions share
// one evaluator. Code identifiers resolve through types.Info, contract identifiers by name.

import (
	"fmt"
	"go/ast"
	"go/constant"
	"go/token"
	"go/types"
	"math/big"
	"strconv"
	"strings"

	"golang.org/x/tools/go/packages"
)

type Env struct {
	x        *Exec
	st       *State
	pkg      *packages.Package
	names    map[string]Value // contract bindings (params at entry, results)
	bound    map[string]Value // quantifier-bound variables (survive old())
	oldSt    *State
	contract bool // evaluating a contract expression: no obligations, math semantics for int
	locals   bool // contract may mention locals of the current frame by name
	where    string
	nonneg   map[*Term]bool // terms known to be >= 0 (bound variables of quantifiers with lower bound >= 0)
}

func (e *Env) info() *types.Info {
	if e.pkg == nil {
		return nil
	}
	return e.pkg.TypesInfo
}

func (e *Env) sub(names map[string]Value) *Env {
	n := *e
	n.bound = map[string]Value{}
	for k, v := range e.bound {
		n.bound[k] = v
	}
	for k, v := range names {
		n.bound[k] = v
	}
	if e.nonneg != nil {
		n.nonneg = map[*Term]bool{}
		for k := range e.nonneg {
			n.nonneg[k] = true
		}
	}
	return &n
}

var intT = types.Typ[types.Int]
var boolT = types.Typ[types.Bool]
var byteT = types.Typ[types.Uint8]

// NilV: untyped nil.
type NilV struct{}

func (e *Env) R() *Repr { return e.x.R }

func (e *Env) lit(v *big.Int, t types.Type) Scalar {
	if isMathInt(t) {
		return Scalar{IntB(v), t}
	}
	s := e.R().sortOf(t)
	if s == nil {
		unsupported("literal of type %s", t)
	}
	if s.K == KBV {
		return Scalar{BVC(v, s.W), t}
	}
	return Scalar{IntB(v), t}
}

func (e *Env) constVal(v constant.Value, t types.Type) Value {
	if b, ok := basicOf(t); ok {
		switch {
		case b.Info()&types.IsUntyped != 0 && b.Kind() != types.UntypedBool && b.Kind() != types.UntypedString && b.Kind() != types.UntypedNil:
			return UConst{v}
		case b.Info()&types.IsBoolean != 0:
			return Scalar{BoolC(constant.BoolVal(v)), boolT}
		case b.Info()&types.IsInteger != 0:
			bi, ok := constToBig(v)
			if !ok {
				unsupported("non-integer constant %s", v)
			}
			return e.lit(bi, t)
		case b.Info()&types.IsString != 0:
			return e.stringLit(constant.StringVal(v), t)
		case b.Info()&types.IsFloat != 0:
			return UConst{v}
		}
	}
	unsupported("constant of type %s", t)
	return nil
}

func (e *Env) stringLit(s string, t types.Type) Value {
	if b, ok := basicOf(t); ok && b.Kind() == types.UntypedString {
		t = types.Typ[types.String]
	}
	es := e.R().sortOf(byteT)
	var zero *Term
	if es.K == KBV {
		zero = BVCi(0, 8)
	} else {
		zero = IntC(0)
	}
	arr := ConstArr(zero)
	for i := 0; i < len(s); i++ {
		var c *Term
		if es.K == KBV {
			c = BVCi(int64(s[i]), 8)
		} else {
			c = IntC(int64(s[i]))
		}
		arr = Store(arr, IntC(int64(i)), c)
	}
	a := e.x.alloc()
	e.st.mem[a] = ArrayV{T: arr, N: -1, Elem: byteT}
	return SliceV{Alloc: a, Off: IntC(0), Len: IntC(int64(len(s))), Cap: IntC(int64(len(s))), Elem: byteT, IsString: true, Nil: FalseT, Typ: t}
}

// ---------------------------------------------------------------- conversions

func fitsIn(src, dst types.Type) bool {
	a, ok1 := intInfoOf(src)
	b, ok2 := intInfoOf(dst)
	if !ok1 || !ok2 {
		return false
	}
	if isMathInt(dst) {
		return true
	}
	if isMathInt(src) {
		return false
	}
	return a.min().Cmp(b.min()) >= 0 && a.max().Cmp(b.max()) <= 0
}

// toIntTerm: mathematical integer value (Int sort) of an integer scalar.
func (e *Env) toIntTerm(v Value) *Term {
	switch s := v.(type) {
	case UConst:
		bi, ok := constToBig(s.V)
		if !ok {
			unsupported("non-integer constant")
		}
		return IntB(bi)
	case Scalar:
		if s.T.S == IntS {
			return s.T
		}
		if s.T.S.K == KBV {
			ii, _ := intInfoOf(s.Typ)
			if ii.Signed {
				return Ite(BVCmp("bvslt", s.T, BVCi(0, s.T.S.W)), Sub(BV2Nat(s.T), IntB(pow2(s.T.S.W))), BV2Nat(s.T))
			}
			return BV2Nat(s.T)
		}
	}
	unsupported("integer value expected, got %T", v)
	return nil
}

func (e *Env) convert(v Value, to types.Type) Value {
	switch s := v.(type) {
	case AbsV:
		if s.T.S == UnS("Float") {
			if b, ok := basicOf(to); ok && b.Info()&types.IsFloat != 0 {
				return AbsV{s.T, to}
			}
			if _, ok := intInfoOf(to); ok && e.R().sortOf(to) == IntS {
				// float -> integer: some value of the target type (the result for out-of-range values is
				// implementation-defined in Go and nothing is assumed about the in-range case either)
				r := App("int_of_float_"+types.TypeString(to, nil), IntS, s.T)
				e.st.assume(e.R().rangeOf(r, to))
				return Scalar{r, to}
			}
		}
		return AbsV{s.T, to}
	case UConst:
		if b, ok := basicOf(to); ok {
			if b.Info()&types.IsInteger != 0 {
				bi, ok := constToBig(s.V)
				if !ok {
					unsupported("constant %s not an integer", s.V)
				}
				if isMathInt(to) {
					return Scalar{IntB(bi), to}
				}
				ii, _ := intInfoOf(to)
				if !e.contract && (bi.Cmp(ii.min()) < 0 || bi.Cmp(ii.max()) > 0) {
					unsupported("constant %s overflows %s", bi, to)
				}
				if e.contract && (bi.Cmp(ii.min()) < 0 || bi.Cmp(ii.max()) > 0) {
					return Scalar{IntB(bi), mathIntType}
				}
				return e.lit(bi, to)
			}
			if b.Info()&types.IsFloat != 0 {
				return UConst{s.V}
			}
		}
		unsupported("convert constant to %s", to)
	case Scalar:
		if s.T.S == BoolS {
			return Scalar{s.T, to}
		}
		if _, ok := intInfoOf(to); !ok {
			if b, ok := basicOf(to); ok && b.Info()&types.IsFloat != 0 {
				// int -> float: abstract
				return AbsV{App("float_of_int", UnS("Float"), e.toIntTerm(s)), to}
			}
			if b, ok := basicOf(to); ok && b.Info()&types.IsString != 0 {
				// string(rune) conversions: only constants handled elsewhere
				unsupported("string(integer) conversion")
			}
			unsupported("convert %s to %s", s.Typ, to)
		}
		if isMathInt(to) {
			return Scalar{e.toIntTerm(s), to}
		}
		ds := e.R().sortOf(to)
		if s.T.S == IntS {
			if ds == IntS {
				if e.contract && isMathInt(s.Typ) {
					if ii, ok := intInfoOf(to); ok && ii.W == 64 && ii.Signed {
						return Scalar{s.T, to} // specs read int mathematically
					}
				}
				if fitsIn(s.Typ, to) {
					return Scalar{s.T, to}
				}
				return Scalar{e.wrapFit(s.T, to), to}
			}
			return Scalar{Int2BV(ds.W, s.T), to}
		}
		// source BV
		if ds == IntS {
			t := e.toIntTerm(s)
			if !fitsIn(s.Typ, to) {
				t = e.wrapFit(t, to)
			}
			return Scalar{t, to}
		}
		ws, wd := s.T.S.W, ds.W
		switch {
		case wd == ws:
			return Scalar{s.T, to}
		case wd < ws:
			return Scalar{Extract(wd-1, 0, s.T), to}
		default:
			ii, _ := intInfoOf(s.Typ)
			if ii.Signed {
				return Scalar{SExt(wd-ws, s.T), to}
			}
			return Scalar{ZExt(wd-ws, s.T), to}
		}
	case SliceV:
		// string <-> []byte, named slice types
		switch u := to.Underlying().(type) {
		case *types.Basic:
			if u.Info()&types.IsString != 0 {
				if s.IsString {
					r := s
					r.Typ = to
					return r
				}
				// snapshot
				a := e.x.alloc()
				arr := e.x.memArr(e.st, s.Alloc, s.path)
				e.st.mem[a] = ArrayV{T: arr.T, N: -1, Elem: s.Elem}
				return SliceV{Alloc: a, Off: s.Off, Len: s.Len, Cap: s.Len, Elem: s.Elem, IsString: true, Nil: FalseT, Typ: to}
			}
		case *types.Slice:
			if s.IsString {
				a := e.x.alloc()
				arr := e.x.memArr(e.st, s.Alloc, s.path)
				e.st.mem[a] = ArrayV{T: arr.T, N: -1, Elem: s.Elem}
				return SliceV{Alloc: a, Off: s.Off, Len: s.Len, Cap: s.Len, Elem: u.Elem(), Nil: FalseT, Typ: to}
			}
			r := s
			r.Typ = to
			return r
		}
		unsupported("convert slice to %s", to)
	case NilV:
		return e.zeroValue(to, true)
	case ErrV:
		return s
	case StructV:
		return StructV{s.F, to}
	case PtrV:
		r := s
		r.Typ = to
		return r
	case ArrayV:
		r := s
		r.Typ = to
		return r
	}
	unsupported("convert %T to %s", v, to)
	return nil
}

// zeroValue of a Go type. nilOK: produce nil for reference types.
func (e *Env) zeroValue(t types.Type, nilOK bool) Value {
	if isBigIntType(t) {
		return Scalar{IntC(0), mathIntType}
	}
	if as := abstractSort(t); as != nil {
		return Scalar{App("zero$"+as.Name, as), t}
	}
	switch u := t.Underlying().(type) {
	case *types.Basic:
		if u.Info()&types.IsBoolean != 0 {
			return Scalar{FalseT, t}
		}
		if u.Info()&types.IsInteger != 0 {
			return e.lit(big.NewInt(0), t)
		}
		if u.Info()&types.IsString != 0 {
			return e.stringLit("", t)
		}
	case *types.Slice:
		if e.R().sortOf(u.Elem()) == nil {
			return SeqV{Len: IntC(0), Typ: t} // nil slice of non-scalars
		}
		a := e.x.alloc()
		e.st.mem[a] = ArrayV{T: ConstArr(e.zeroElem(u.Elem())), N: -1, Elem: u.Elem()}
		return SliceV{Alloc: a, Off: IntC(0), Len: IntC(0), Cap: IntC(0), Elem: u.Elem(), Nil: TrueT, Typ: t}
	case *types.Array:
		return ArrayV{T: ConstArr(e.zeroElem(u.Elem())), N: u.Len(), Elem: u.Elem(), Typ: t}
	case *types.Struct:
		if types.TypeString(t, nil) == "strings.Builder" {
			a := e.x.alloc()
			e.st.mem[a] = ArrayV{T: ConstArr(e.zeroElem(byteT)), N: -1, Elem: byteT}
			return SliceV{Alloc: a, Off: IntC(0), Len: IntC(0), Cap: IntC(0), Elem: byteT, Nil: FalseT, Typ: t}
		}
		f := map[string]Value{}
		for i := 0; i < u.NumFields(); i++ {
			f[u.Field(i).Name()] = e.zeroValue(u.Field(i).Type(), true)
		}
		return StructV{F: f, Typ: t}
	case *types.Interface:
		if isErrorType(t) {
			return ErrV{Nil: TrueT, Kind: IntC(0), Type: IntC(0), Off: IntC(0)}
		}
		return Scalar{App("nil_"+absSortNameV(t), UnS(absSortNameV(t))), t}
	case *types.Pointer:
		return PtrV{Alloc: 0, Nil: TrueT, Typ: t}
	}
	unsupported("zero value of %s", t)
	return nil
}

func absSortName(t types.Type) string {
	s := types.TypeString(t, func(p *types.Package) string { return p.Name() })
	s = strings.NewReplacer("*", "Ptr_", ".", "_", "[", "_", "]", "_", " ", "", "{", "", "}", "", "/", "_").Replace(s)
	return "S_" + s
}

func (e *Env) zeroElem(t types.Type) *Term {
	s := e.R().sortOf(t)
	if s == nil {
		unsupported("array element type %s", t)
	}
	switch s.K {
	case KBV:
		return BVCi(0, s.W)
	case KBool:
		return FalseT
	}
	return IntC(0)
}

func isErrorType(t types.Type) bool {
	return types.Identical(t, types.Universe.Lookup("error").Type())
}

// ---------------------------------------------------------------- identifiers

func (e *Env) lookupVar(obj types.Object) (Value, bool) {
	v, ok := e.st.vars[obj]
	if !ok {
		return nil, false
	}
	if r, isRef := v.(RefV); isRef {
		return e.x.memCell(e.st, r.Alloc), true
	}
	return v, true
}

func (e *Env) ident(id *ast.Ident) Value {
	// contract bindings shadow everything
	if e.bound != nil {
		if v, ok := e.bound[id.Name]; ok {
			return v
		}
	}
	if e.names != nil {
		if v, ok := e.names[id.Name]; ok {
			return v
		}
	}
	if e.contract {
		if v, ok := specConstsNow[id.Name]; ok {
			return UConst{constant.MakeInt64(v)}
		}
		if v, ok := e.x.ghostValue(e, id.Name); ok {
			return v
		}
	}
	var obj types.Object
	if info := e.info(); info != nil {
		obj = info.Uses[id]
		if obj == nil {
			obj = info.Defs[id]
		}
	}
	if obj == nil {
		switch id.Name {
		case "true":
			return Scalar{TrueT, boolT}
		case "false":
			return Scalar{FalseT, boolT}
		case "nil":
			return NilV{}
		}
		if e.locals || e.contract {
			// local of the current frame by name
			var found types.Object
			n := 0
			for o := range e.st.vars {
				if o.Name() == id.Name {
					if found == nil || o.Pos() > found.Pos() {
						found = o
					}
					n++
				}
			}
			if found != nil {
				v, _ := e.lookupVar(found)
				return v
			}
		}
		if e.pkg != nil {
			obj = e.pkg.Types.Scope().Lookup(id.Name)
		}
		if obj == nil {
			obj = types.Universe.Lookup(id.Name)
		}
		if obj == nil {
			unsupported("%s: unknown identifier %q", e.where, id.Name)
		}
	}
	switch o := obj.(type) {
	case *types.Const:
		return e.constVal(o.Val(), o.Type())
	case *types.Nil:
		return NilV{}
	case *types.Func:
		return FuncV{o}
	case *types.Var:
		if v, ok := e.lookupVar(o); ok {
			return v
		}
		if o.Parent() == o.Pkg().Scope() {
			return e.x.globalValue(e, o)
		}
		unsupported("%s: variable %s has no value here", e.where, o.Name())
	case *types.TypeName:
		unsupported("type name %s used as value", o.Name())
	}
	unsupported("identifier %s (%T)", id.Name, obj)
	return nil
}

// ---------------------------------------------------------------- main evaluator

func (e *Env) typeOf(x ast.Expr) types.Type {
	if info := e.info(); info != nil {
		if t := info.TypeOf(x); t != nil {
			return t
		}
	}
	return nil
}

func (e *Env) expr(x ast.Expr) Value {
	if info := e.info(); info != nil {
		if tv, ok := info.Types[x]; ok && tv.Value != nil {
			return e.constVal(tv.Value, tv.Type)
		}
	}
	switch n := x.(type) {
	case *ast.ParenExpr:
		return e.expr(n.X)
	case *ast.BasicLit:
		switch n.Kind {
		case token.INT:
			return UConst{constant.MakeFromLiteral(n.Value, token.INT, 0)}
		case token.CHAR:
			return UConst{constant.MakeFromLiteral(n.Value, token.CHAR, 0)}
		case token.STRING:
			s, _ := strconv.Unquote(n.Value)
			return e.stringLit(s, types.Typ[types.String])
		case token.FLOAT:
			return UConst{constant.MakeFromLiteral(n.Value, token.FLOAT, 0)}
		}
		unsupported("literal %s", n.Value)
	case *ast.Ident:
		return e.ident(n)
	case *ast.UnaryExpr:
		return e.unary(n)
	case *ast.BinaryExpr:
		return e.binary(n)
	case *ast.CallExpr:
		return e.call(n)
	case *ast.IndexExpr:
		return e.index(n)
	case *ast.SliceExpr:
		return e.slice(n)
	case *ast.SelectorExpr:
		return e.selector(n)
	case *ast.StarExpr:
		p := e.expr(n.X)
		return e.deref(p, n)
	case *ast.CompositeLit:
		return e.composite(n)
	case *ast.TypeAssertExpr:
		v := e.expr(n.X)
		// x.(T) on abstract values: keep the term, retag
		if a, ok := v.(AbsV); ok {
			if t := e.typeOf(n.Type); t != nil {
				return e.x.assertType(e, a, t)
			}
		}
		// a concrete value held in an interface: the assertion succeeds exactly when the dynamic
		// type is the asserted one (decided statically on this path)
		t := e.typeOf(n.Type)
		if t == nil && e.contract {
			if rt, err := e.x.U.resolveType(e.pkg, n.Type); err == nil {
				t = rt
			}
		}
		if t != nil {
			var dt types.Type
			switch c := v.(type) {
			case PtrV:
				dt = c.Typ
			case StructV:
				dt = c.Typ
			case SliceV:
				dt = c.Typ
			}
			if dt != nil {
				if types.Identical(dt, t) {
					return v
				}
				if !e.contract {
					e.x.safety(e, "typeassert", n, FalseT)
				}
				return e.x.havoc(e, t, "typeassert")
			}
		}
		unsupported("type assertion on %T", v)
	}
	unsupported("%s: expression %T", e.where, x)
	return nil
}

func (e *Env) deref(p Value, at ast.Node) Value {
	switch pv := p.(type) {
	case PtrV:
		e.x.safety(e, "nil", at, Not(pv.Nil))
		if pv.Alloc == 0 {
			// the nil pointer: code cannot get here (the obligation above fails); a specification
			// that dereferences it reads an arbitrary value
			if pt, ok := pv.Typ.(*types.Pointer); ok && pt != nil {
				return e.x.havoc(e, pt.Elem(), "nilderef")
			}
			if pv.Typ != nil {
				if pt, ok := pv.Typ.Underlying().(*types.Pointer); ok {
					return e.x.havoc(e, pt.Elem(), "nilderef")
				}
			}
			unsupported("%s: dereference of the nil pointer", e.where)
		}
		return navigate(e.x.memCell(e.st, pv.Alloc), pv.Path)
	}
	unsupported("dereference of %T", p)
	return nil
}

func (e *Env) boolTerm(v Value) *Term {
	switch s := v.(type) {
	case Scalar:
		if s.T.S == BoolS {
			return s.T
		}
	case UConst:
		if s.V.Kind() == constant.Bool {
			return BoolC(constant.BoolVal(s.V))
		}
	}
	unsupported("%s: boolean expected, got %v", e.where, v)
	return nil
}

func (e *Env) unary(n *ast.UnaryExpr) Value {
	switch n.Op {
	case token.NOT:
		return Scalar{Not(e.boolTerm(e.expr(n.X))), boolT}
	case token.AND:
		return e.addressOf(n.X)
	}
	v := e.expr(n.X)
	if t := e.typeOf(n); t != nil {
		if _, isU := v.(UConst); isU {
			v = e.convert(v, t)
		}
	}
	switch s := v.(type) {
	case UConst:
		switch n.Op {
		case token.SUB:
			return UConst{constant.UnaryOp(token.SUB, s.V, 0)}
		case token.ADD:
			return s
		case token.XOR:
			return UConst{constant.UnaryOp(token.XOR, s.V, 0)}
		}
	case Scalar:
		switch n.Op {
		case token.ADD:
			return s
		case token.SUB:
			if s.T.S.K == KBV {
				return Scalar{BVNeg(s.T), s.Typ}
			}
			return e.arithResult(Neg(s.T), s.Typ, n)
		case token.XOR:
			if s.T.S.K == KBV {
				return Scalar{BVNot(s.T), s.Typ}
			}
			// ^x = -x-1 (signed) or max-x (unsigned)
			ii, _ := intInfoOf(s.Typ)
			if ii.Signed {
				return Scalar{Sub(Neg(s.T), IntC(1)), s.Typ}
			}
			return Scalar{Sub(IntB(ii.max()), s.T), s.Typ}
		}
	}
	unsupported("unary %s on %T", n.Op, v)
	return nil
}

// arithResult applies Go's overflow behaviour to a mathematical Int result.
func (e *Env) arithResult(t *Term, typ types.Type, at ast.Node) Value {
	if isMathInt(typ) {
		return Scalar{t, typ}
	}
	ii, ok := intInfoOf(typ)
	if !ok {
		return Scalar{t, typ}
	}
	if ii.Signed && ii.W == 64 {
		if e.contract {
			return Scalar{t, typ} // specs: int is read mathematically
		}
		if !e.x.noOverflowObl && t.Op != "const" {
			e.x.safety(e, "overflow", at, And(Le(IntB(ii.min()), t), Le(t, IntB(ii.max()))))
		}
		return Scalar{t, typ}
	}
	return Scalar{e.wrapFit(t, typ), typ}
}

func contigMask(c *big.Int) (lo, n int, ok bool) {
	if c.Sign() <= 0 {
		return 0, 0, false
	}
	lo = int(c.TrailingZeroBits())
	sh := new(big.Int).Rsh(c, uint(lo))
	n = sh.BitLen()
	if new(big.Int).Add(sh, big.NewInt(1)).Cmp(pow2(n)) != 0 {
		return 0, 0, false
	}
	return lo, n, true
}

// unify makes two operands have the same Go type (constants adapt).
func (e *Env) unify(a, b Value) (Value, Value) {
	ua, aU := a.(UConst)
	ub, bU := b.(UConst)
	switch {
	case aU && bU:
		return ua, ub
	case aU:
		if sb, ok := b.(Scalar); ok {
			return e.convert(ua, sb.Typ), b
		}
	case bU:
		if sa, ok := a.(Scalar); ok {
			return a, e.convert(ub, sa.Typ)
		}
	}
	return a, b
}

func (e *Env) binary(n *ast.BinaryExpr) Value {
	switch n.Op {
	case token.LAND, token.LOR:
		return e.shortCircuit(n)
	}
	a := e.expr(n.X)
	b := e.expr(n.Y)
	return e.binop(n.Op, a, b, n)
}

func (e *Env) shortCircuit(n *ast.BinaryExpr) Value {
	if e.contract {
		// contract expressions have no side effects
		a := e.boolTerm(e.expr(n.X))
		if (n.Op == token.LAND && a.IsFalse()) || (n.Op == token.LOR && a.IsTrue()) {
			return Scalar{a, boolT}
		}
		b := e.boolTerm(e.expr(n.Y))
		if n.Op == token.LAND {
			return Scalar{And(a, b), boolT}
		}
		return Scalar{Or(a, b), boolT}
	}
	a := e.boolTerm(e.expr(n.X))
	g := a
	if n.Op == token.LOR {
		g = Not(a)
	}
	if g.IsFalse() {
		return Scalar{a, boolT}
	}
	// evaluate the right operand under guard g
	st2 := e.st.fork()
	st2.assume(g)
	e2 := *e
	e2.st = st2
	b := e2.boolTerm(e2.expr(n.Y))
	// fold side effects back: assumptions become implications, memory/vars become ite
	base := len(e.st.pc)
	if !g.IsTrue() {
		base++
	}
	for _, p := range st2.pc[min(base, len(st2.pc)):] {
		e.st.assume(Implies(g, p))
	}
	for k, v := range st2.mem {
		if w, ok := e.st.mem[k]; ok {
			if !sameValue(v, w) {
				e.st.mem[k] = mergeVal(g, v, w)
			}
		} else {
			e.st.mem[k] = v
		}
	}
	for k, v := range st2.vars {
		if w, ok := e.st.vars[k]; ok && !sameValue(v, w) {
			e.st.vars[k] = mergeVal(g, v, w)
		}
	}
	for k, v := range st2.ghost {
		// a ghost bound only under the guard is arbitrary otherwise: keep the bound value
		if e.st.ghost == nil {
			e.st.ghost = map[string]Value{}
		}
		if _, ok := e.st.ghost[k]; !ok {
			e.st.ghost[k] = v
		}
	}
	if n.Op == token.LAND {
		return Scalar{And(a, b), boolT}
	}
	return Scalar{Or(a, b), boolT}
}

func (e *Env) binop(op token.Token, a, b Value, at ast.Node) Value {
	// comparisons of non-scalars
	switch op {
	case token.EQL, token.NEQ:
		if t, ok := e.equalValues(a, b); ok {
			if op == token.NEQ {
				t = Not(t)
			}
			return Scalar{t, boolT}
		}
	}
	if op == token.ADD {
		if sa, ok := a.(SliceV); ok && sa.IsString {
			if sb, ok := b.(SliceV); ok && sb.IsString {
				return e.x.concatStrings(e, sa, sb)
			}
		}
	}
	isShift := op == token.SHL || op == token.SHR
	if !isShift {
		a, b = e.unify(a, b)
	}
	ua, aU := a.(UConst)
	ub, bU := b.(UConst)
	if aU && bU {
		switch op {
		case token.EQL, token.NEQ, token.LSS, token.LEQ, token.GTR, token.GEQ:
			return Scalar{BoolC(constant.Compare(ua.V, op, ub.V)), boolT}
		case token.SHL, token.SHR:
			s, _ := constant.Uint64Val(constant.ToInt(ub.V))
			return UConst{constant.Shift(constant.ToInt(ua.V), op, uint(s))}
		case token.QUO:
			if ua.V.Kind() == constant.Int && ub.V.Kind() == constant.Int {
				return UConst{constant.BinaryOp(ua.V, token.QUO_ASSIGN, ub.V)}
			}
		}
		return UConst{constant.BinaryOp(ua.V, op, ub.V)}
	}
	if isShift {
		return e.shift(op, a, b, at)
	}
	sa, okA := a.(Scalar)
	sb, okB := b.(Scalar)
	if !okA || !okB {
		if fa, ok := a.(AbsV); ok {
			return e.x.absBinop(e, op, fa, b, at)
		}
		if fb, ok := b.(AbsV); ok {
			return e.x.absBinop(e, op, a, fb, at)
		}
		unsupported("%s: binary %s on %T and %T", e.where, op, a, b)
	}
	if sa.T.S != sb.T.S {
		sameType := types.Identical(sa.Typ.Underlying(), sb.Typ.Underlying()) && !isMathInt(sa.Typ) && !isMathInt(sb.Typ)
		switch {
		case sameType && sa.T.S.K == KBV && sa.T.Op == "const" && sb.T.S == IntS && !isBitop(op):
			sa = Scalar{BV2Nat(sa.T), sb.Typ}
		case sameType && sb.T.S.K == KBV && sb.T.Op == "const" && sa.T.S == IntS && !isBitop(op):
			sb = Scalar{BV2Nat(sb.T), sa.Typ}
		case sameType && sa.T.S.K == KBV && sb.T.S == IntS:
			sb = Scalar{Int2BV(sa.T.S.W, sb.T), sa.Typ}
		case sameType && sb.T.S.K == KBV && sa.T.S == IntS:
			sa = Scalar{Int2BV(sb.T.S.W, sa.T), sb.Typ}
		case e.contract:
			// contracts may mix integer types and mathint: compute mathematically
			sa = Scalar{e.toIntTerm(sa), mathIntType}
			sb = Scalar{e.toIntTerm(sb), mathIntType}
		case sa.T.S.K == KBV && sb.T.S == IntS:
			sb = Scalar{Int2BV(sa.T.S.W, sb.T), sa.Typ}
		case sb.T.S.K == KBV && sa.T.S == IntS:
			sa = Scalar{Int2BV(sb.T.S.W, sa.T), sb.Typ}
		case (sa.T.S.K == KUn || sb.T.S.K == KUn) && (op == token.EQL || op == token.NEQ) && !e.contract:
			// an interface value compared with a concrete one: equal exactly when the dynamic type and
			// value agree, which the abstract representation does not determine: an unknown truth value
			return Scalar{e.x.fresh("ifacecmp", BoolS), boolT}
		default:
			unsupported("%s: operands of %s have different representations (%s, %s)", e.where, op, sa.Typ, sb.Typ)
		}
	}
	typ := sa.Typ
	if e.contract && (isMathInt(sb.Typ)) {
		typ = sb.Typ
	}
	if e.contract && sa.T.S == IntS && !types.Identical(sa.Typ.Underlying(), sb.Typ.Underlying()) && !isMathInt(typ) {
		// contracts may mix Int-represented integer types: compute mathematically
		typ = mathIntType
	}
	if sa.T.S == BoolS {
		switch op {
		case token.EQL:
			return Scalar{Eq(sa.T, sb.T), boolT}
		case token.NEQ:
			return Scalar{Ne(sa.T, sb.T), boolT}
		}
		unsupported("boolean operator %s", op)
	}
	if sa.T.S.K == KBV {
		ii, _ := intInfoOf(typ)
		w := sa.T.S.W
		switch op {
		case token.ADD:
			return Scalar{BVBin("bvadd", sa.T, sb.T), typ}
		case token.SUB:
			return Scalar{BVBin("bvsub", sa.T, sb.T), typ}
		case token.MUL:
			return Scalar{BVBin("bvmul", sa.T, sb.T), typ}
		case token.AND:
			return Scalar{BVBin("bvand", sa.T, sb.T), typ}
		case token.OR:
			return Scalar{BVBin("bvor", sa.T, sb.T), typ}
		case token.XOR:
			return Scalar{BVBin("bvxor", sa.T, sb.T), typ}
		case token.AND_NOT:
			return Scalar{BVBin("bvand", sa.T, BVNot(sb.T)), typ}
		case token.QUO:
			e.x.safety(e, "div", at, Ne(sb.T, BVCi(0, w)))
			if ii.Signed {
				return Scalar{mk("bvsdiv", sa.T.S, sa.T, sb.T), typ}
			}
			return Scalar{BVBin("bvudiv", sa.T, sb.T), typ}
		case token.REM:
			e.x.safety(e, "div", at, Ne(sb.T, BVCi(0, w)))
			if ii.Signed {
				return Scalar{mk("bvsrem", sa.T.S, sa.T, sb.T), typ}
			}
			return Scalar{BVBin("bvurem", sa.T, sb.T), typ}
		case token.EQL:
			return Scalar{Eq(sa.T, sb.T), boolT}
		case token.NEQ:
			return Scalar{Ne(sa.T, sb.T), boolT}
		case token.LSS, token.LEQ, token.GTR, token.GEQ:
			x, y := sa.T, sb.T
			if op == token.GTR || op == token.GEQ {
				x, y = y, x
			}
			strict := op == token.LSS || op == token.GTR
			var c string
			switch {
			case ii.Signed && strict:
				c = "bvslt"
			case ii.Signed:
				c = "bvsle"
			case strict:
				c = "bvult"
			default:
				c = "bvule"
			}
			return Scalar{BVCmp(c, x, y), boolT}
		}
		unsupported("bit-vector operator %s", op)
	}
	// Int representation
	switch op {
	case token.ADD:
		return e.arithResult(Add(sa.T, sb.T), typ, at)
	case token.SUB:
		return e.arithResult(Sub(sa.T, sb.T), typ, at)
	case token.MUL:
		return e.arithResult(Mul(sa.T, sb.T), typ, at)
	case token.QUO:
		if !e.contract {
			e.x.safety(e, "div", at, Ne(sb.T, IntC(0)))
		}
		return e.arithResult(e.tdiv(sa.T, sb.T), typ, at)
	case token.REM:
		if !e.contract {
			e.x.safety(e, "div", at, Ne(sb.T, IntC(0)))
		}
		return Scalar{e.tmod(sa.T, sb.T), typ}
	case token.EQL:
		return Scalar{Eq(sa.T, sb.T), boolT}
	case token.NEQ:
		return Scalar{Ne(sa.T, sb.T), boolT}
	case token.LSS:
		return Scalar{Lt(sa.T, sb.T), boolT}
	case token.LEQ:
		return Scalar{Le(sa.T, sb.T), boolT}
	case token.GTR:
		return Scalar{Gt(sa.T, sb.T), boolT}
	case token.GEQ:
		return Scalar{Ge(sa.T, sb.T), boolT}
	case token.AND, token.OR, token.XOR, token.AND_NOT:
		return e.intBitop(op, sa, sb, typ)
	}
	unsupported("operator %s", op)
	return nil
}

// intBitop: bitwise operators on Int-represented values; one operand must be a constant mask
// of contiguous bits (otherwise the function needs `repr <type> bv`).
func (e *Env) intBitop(op token.Token, a, b Scalar, typ types.Type) Value {
	if a.T.Op == "const" && b.T.Op != "const" && op != token.AND_NOT {
		a, b = b, a
	}
	if b.T.Op != "const" {
		return e.bvEmbed(op, a, b, typ)
	}
	c := b.T.V
	if a.T.Op == "const" {
		ii, _ := intInfoOf(typ)
		x := new(big.Int).Mod(a.T.V, pow2(ii.W))
		y := new(big.Int).Mod(c, pow2(ii.W))
		r := new(big.Int)
		switch op {
		case token.AND:
			r.And(x, y)
		case token.OR:
			r.Or(x, y)
		case token.XOR:
			r.Xor(x, y)
		case token.AND_NOT:
			r.AndNot(x, y)
		}
		if ii.Signed {
			r = toSigned(r, ii.W)
		}
		return Scalar{IntB(r), typ}
	}
	if c.Sign() == 0 {
		switch op {
		case token.AND:
			return Scalar{IntC(0), typ}
		default:
			return a
		}
	}
	lo, n, ok := contigMask(c)
	if !ok {
		return e.bvEmbed(op, a, b, typ)
	}
	// field = ((x div 2^lo) mod 2^n) * 2^lo  (euclidean: correct for two's complement negatives)
	field := Mul(EMod(EDiv(a.T, IntB(pow2(lo))), IntB(pow2(n))), IntB(pow2(lo)))
	switch op {
	case token.AND:
		return Scalar{field, typ}
	case token.AND_NOT:
		return Scalar{Sub(a.T, field), typ}
	case token.OR:
		return Scalar{Add(Sub(a.T, field), IntB(c)), typ}
	case token.XOR:
		// x ^ c = x - field + (c - field)
		return Scalar{Add(Sub(a.T, field), Sub(IntB(c), field)), typ}
	}
	return nil
}

// bvEmbed: bitwise operator on Int-represented operands through a local bit-vector embedding; the
// result stays a bit vector (variables listed in the contract's `bv` clause keep that form).
func (e *Env) bvEmbed(op token.Token, a, b Scalar, typ types.Type) Value {
	ii, ok := intInfoOf(typ)
	if !ok || isMathInt(typ) {
		unsupported("%s: bitwise %s on %s (operands %s : %s and %s : %s)", e.where, op, typ, truncate(a.T.String(), 80), a.Typ, truncate(b.T.String(), 80), b.Typ)
	}
	x, y := Int2BV(ii.W, a.T), Int2BV(ii.W, b.T)
	switch op {
	case token.AND:
		return Scalar{BVBin("bvand", x, y), typ}
	case token.OR:
		return Scalar{BVBin("bvor", x, y), typ}
	case token.XOR:
		return Scalar{BVBin("bvxor", x, y), typ}
	case token.AND_NOT:
		return Scalar{BVBin("bvand", x, BVNot(y)), typ}
	}
	unsupported("bvEmbed %s", op)
	return nil
}

func (e *Env) shift(op token.Token, a, b Value, at ast.Node) Value {
	// result type: type of a (if a is an untyped constant, the context type)
	if ua, ok := a.(UConst); ok {
		t := e.typeOf(at.(ast.Expr))
		if t == nil {
			if sb, ok := b.(Scalar); ok && sb.T.Op == "const" {
				return UConst{constant.Shift(constant.ToInt(ua.V), op, uint(sb.T.V.Int64()))}
			}
			t = intT
		}
		a = e.convert(ua, t)
	}
	sa := a.(Scalar)
	cnt := e.toIntTerm(b)
	ii, _ := intInfoOf(sa.Typ)
	if sa.T.S.K == KBV {
		w := sa.T.S.W
		var c *Term
		if cnt.Op == "const" {
			c = BVC(cnt.V, w)
			if cnt.V.Cmp(big.NewInt(int64(w))) >= 0 {
				c = BVCi(int64(w), w)
			}
		} else if sb, ok := b.(Scalar); ok && sb.T.S.K == KBV {
			bw := sb.T.S.W
			switch {
			case bw == w:
				c = sb.T
			case bw < w:
				c = ZExt(w-bw, sb.T)
			default:
				c = Ite(BVCmp("bvult", sb.T, BVCi(int64(w), bw)), Extract(w-1, 0, sb.T), BVCi(int64(w), w))
			}
		} else {
			c = Int2BV(w, cnt)
		}
		switch {
		case op == token.SHL:
			return Scalar{BVBin("bvshl", sa.T, c), sa.Typ}
		case ii.Signed:
			return Scalar{BVBin("bvashr", sa.T, c), sa.Typ}
		default:
			return Scalar{BVBin("bvlshr", sa.T, c), sa.Typ}
		}
	}
	if cnt.Op != "const" {
		unsupported("%s: shift of an Int-represented value by a non-constant amount", e.where)
	}
	k := int(cnt.V.Int64())
	if k < 0 {
		if e.contract {
			k = 0 // dead branch of a specification (code gets a panic obligation below)
		} else {
			e.x.safety(e, "shift", at, FalseT)
			k = 0
		}
	}
	if op == token.SHL {
		return e.arithResultShift(Mul(sa.T, IntB(pow2(k))), sa.Typ)
	}
	return Scalar{EDiv(sa.T, IntB(pow2(k))), sa.Typ}
}

func (e *Env) arithResultShift(t *Term, typ types.Type) Value {
	if isMathInt(typ) {
		return Scalar{t, typ}
	}
	return Scalar{e.R().wrap(t, typ), typ}
}

// equalValues: == on non-scalar values.
func (e *Env) equalValues(a, b Value) (*Term, bool) {
	if _, ok := a.(NilV); ok {
		a, b = b, a
	}
	if _, ok := b.(NilV); ok {
		switch v := a.(type) {
		case ErrV:
			return v.Nil, true
		case SliceV:
			return v.Nil, true
		case PtrV:
			return v.Nil, true
		case AbsV:
			return Eq(v.T, App("nil_"+v.T.S.Name, v.T.S)), true
		case Scalar:
			if v.T.S.K == KUn {
				return Eq(v.T, App("nil_"+v.T.S.Name, v.T.S)), true
			}
		case NilV:
			return TrueT, true
		}
		unsupported("comparison of %T with nil", a)
	}
	// interface comparison between a wrapper struct and an interface value (see flatten)
	if sa, ok := a.(StructV); ok {
		if sb, ok := b.(Scalar); ok && sb.T.S.K == KUn && sb.Typ != nil {
			if fl := e.x.flattenSafe(e, sa, sb.Typ); len(fl) == 1 && fl[0].S == sb.T.S {
				return Eq(fl[0], sb.T), true
			}
		}
	}
	if _, ok := b.(StructV); ok {
		if _, ok := a.(Scalar); ok {
			return e.equalValues(b, a)
		}
	}
	if pa, ok := a.(PtrV); ok && e.contract {
		if pb, ok := b.(PtrV); ok {
			same := pa.Alloc == pb.Alloc && len(pa.Path) == len(pb.Path)
			if same {
				for i := range pa.Path {
					same = same && pa.Path[i] == pb.Path[i]
				}
			}
			if same {
				return Eq(pa.Nil, pb.Nil), true
			}
			return And(pa.Nil, pb.Nil), true
		}
	}
	switch va := a.(type) {
	case SliceV:
		vb, ok := b.(SliceV)
		if !ok || !va.IsString || !vb.IsString {
			unsupported("comparison of slices")
		}
		return e.x.stringEq(e, va, vb), true
	case ErrV:
		vb, ok := b.(ErrV)
		if !ok {
			return nil, false
		}
		// identity of error values: same kind and type and both (non)nil
		return And(Eq(va.Nil, vb.Nil), Implies(Not(va.Nil), And(Eq(va.Kind, vb.Kind), Eq(va.Type, vb.Type), Eq(va.Off, vb.Off)))), true
	case AbsV:
		vb, ok := b.(AbsV)
		if ok && va.T.S == vb.T.S {
			return Eq(va.T, vb.T), true
		}
	case ArrayV:
		vb, ok := b.(ArrayV)
		if ok && (va.N < 0 || vb.N < 0) {
			return Eq(va.T, vb.T), true
		}
		if ok {
			var cs []*Term
			if va.N <= 64 {
				for i := int64(0); i < va.N; i++ {
					cs = append(cs, Eq(Select(va.T, IntC(i)), Select(vb.T, IntC(i))))
				}
				return And(cs...), true
			}
			k := e.x.fresh("k", IntS)
			return Forall([]*Term{k}, Implies(And(Le(IntC(0), k), Lt(k, IntC(va.N))), Eq(Select(va.T, k), Select(vb.T, k)))), true
		}
	case StructV:
		vb, ok := b.(StructV)
		if ok {
			var cs []*Term
			for k, f := range va.F {
				t, ok := e.equalValues(f, vb.F[k])
				if !ok {
					sa, ok1 := f.(Scalar)
					sb, ok2 := vb.F[k].(Scalar)
					if !ok1 || !ok2 {
						return nil, false
					}
					t = Eq(sa.T, sb.T)
				}
				cs = append(cs, t)
			}
			return And(cs...), true
		}
	}
	return nil, false
}

// ---------------------------------------------------------------- indexing

func (e *Env) indexTerm(v Value) *Term {
	return e.toIntTerm(v)
}

func (e *Env) index(n *ast.IndexExpr) Value {
	base := e.expr(n.X)
	iv := e.expr(n.Index)
	return e.indexValue(base, iv, n)
}

func (e *Env) indexValue(base Value, iv Value, at ast.Node) Value {
	if p, ok := base.(PtrV); ok {
		base = e.deref(p, at)
	}
	switch b := base.(type) {
	case SliceV:
		i := e.indexTerm(iv)
		e.x.safety(e, "index", at, And(Le(IntC(0), i), Lt(i, b.Len)))
		arr := e.x.memArr(e.st, b.Alloc, b.path)
		return e.elemValue(Select(arr.T, Add(b.Off, i)), b.Elem)
	case ArrayV:
		i := e.indexTerm(iv)
		e.x.safety(e, "index", at, And(Le(IntC(0), i), Lt(i, IntC(b.N))))
		return e.elemValue(Select(b.T, i), b.Elem)
	case MapV:
		return e.x.mapIndex(e, b, iv, at)
	case SeqV:
		i := e.indexTerm(iv)
		e.x.safety(e, "index", at, And(Le(IntC(0), i), Lt(i, b.Len)))
		if b.At != nil {
			return b.At(i)
		}
		if c, ok := i.Int64(); ok {
			if c < 0 || c >= int64(len(b.Elems)) {
				// out of range: code cannot continue (the obligation above fails); a specification
				// reads an arbitrary value
				if st, ok := b.Typ.Underlying().(*types.Slice); ok {
					return e.x.havoc(e, st.Elem(), "oob")
				}
				unsupported("%s: index %d of a sequence of %d elements", e.where, c, len(b.Elems))
			}
			return b.Elems[c]
		}
		if len(b.Elems) == 0 {
			if st, ok := b.Typ.Underlying().(*types.Slice); ok {
				return e.x.havoc(e, st.Elem(), "oob")
			}
		}
		res := b.Elems[len(b.Elems)-1]
		for k := len(b.Elems) - 2; k >= 0; k-- {
			res = e.mergeLoose(Eq(i, IntC(int64(k))), b.Elems[k], res)
		}
		return res
	}
	unsupported("%s: index of %T", e.where, base)
	return nil
}

func (e *Env) elemValue(t *Term, elem types.Type) Value {
	return Scalar{t, elem}
}

func (e *Env) slice(n *ast.SliceExpr) Value {
	base := e.expr(n.X)
	var lo, hi *Term
	if n.Low != nil {
		lo = e.indexTerm(e.expr(n.Low))
	}
	if n.High != nil {
		hi = e.indexTerm(e.expr(n.High))
	}
	if n.Max != nil {
		unsupported("3-index slice")
	}
	return e.sliceValue(base, lo, hi, n, n.X)
}

func (e *Env) sliceValue(base Value, lo, hi *Term, at ast.Node, baseExpr ast.Expr) Value {
	if p, ok := base.(PtrV); ok {
		// pointer to array
		cell := navigate(e.x.memCell(e.st, p.Alloc), p.Path)
		arr, ok := cell.(ArrayV)
		if !ok {
			unsupported("slice of pointer to %T", cell)
		}
		base = SliceV{Alloc: p.Alloc, path: p.Path, Off: IntC(0), Len: IntC(arr.N), Cap: IntC(arr.N), Elem: arr.Elem, Nil: FalseT}
	}
	if arr, ok := base.(ArrayV); ok {
		if e.contract {
			// a specification-level array value: view it through a temporary allocation
			a := e.x.alloc()
			e.st.mem[a] = ArrayV{T: arr.T, N: -1, Elem: arr.Elem}
			ln := IntC(arr.N)
			if arr.N < 0 {
				ln = hi
				if ln == nil {
					unsupported("%s: slicing an unbounded specification array needs an upper bound", e.where)
				}
			}
			base = SliceV{Alloc: a, Off: IntC(0), Len: ln, Cap: ln, Elem: arr.Elem, Nil: FalseT}
		} else {
			// array variable: must live in memory
			sv := e.arrayPlace(baseExpr, arr)
			base = sv
		}
	}
	b, ok := base.(SliceV)
	if !ok {
		unsupported("%s: slice of %T", e.where, base)
	}
	if lo == nil {
		lo = IntC(0)
	}
	if hi == nil {
		hi = b.Len
	}
	limit := b.Cap
	if b.IsString {
		limit = b.Len
	}
	e.x.safety(e, "slice", at, And(Le(IntC(0), lo), Le(lo, hi), Le(hi, limit)))
	r := b
	r.Off = Add(b.Off, lo)
	r.Len = Sub(hi, lo)
	r.Cap = Sub(b.Cap, lo)
	if b.IsString {
		r.Cap = r.Len
	}
	if t := e.typeOf(at.(ast.Expr)); t != nil {
		r.Typ = t
	}
	return r
}

// arrayPlace moves an array variable (or array field of a struct variable) into memory so that a
// slice can alias it.
func (e *Env) arrayPlace(x ast.Expr, arr ArrayV) SliceV {
	root, path := rootAndPath(x)
	if root == nil {
		unsupported("%s: slicing an array that is not a variable", e.where)
	}
	var obj types.Object
	if info := e.info(); info != nil {
		obj = info.Uses[root]
	}
	if obj == nil {
		unsupported("%s: slicing array %s: unknown variable", e.where, root.Name)
	}
	cur, ok := e.st.vars[obj]
	if !ok {
		unsupported("%s: slicing package-level array %s", e.where, root.Name)
	}
	var alloc int
	if r, isRef := cur.(RefV); isRef {
		alloc = r.Alloc
	} else if p, isPtr := cur.(PtrV); isPtr {
		alloc = p.Alloc
		path = append(append([]string{}, p.Path...), path...)
	} else {
		alloc = e.x.alloc()
		e.st.mem[alloc] = cur
		e.st.vars[obj] = RefV{Alloc: alloc, Typ: obj.Type()}
	}
	return SliceV{Alloc: alloc, path: path, Off: IntC(0), Len: IntC(arr.N), Cap: IntC(arr.N), Elem: arr.Elem, Nil: FalseT}
}

func rootAndPath(x ast.Expr) (*ast.Ident, []string) {
	switch n := x.(type) {
	case *ast.Ident:
		return n, nil
	case *ast.ParenExpr:
		return rootAndPath(n.X)
	case *ast.SelectorExpr:
		r, p := rootAndPath(n.X)
		if r == nil {
			return nil, nil
		}
		return r, append(p, n.Sel.Name)
	case *ast.StarExpr:
		return rootAndPath(n.X)
	}
	return nil, nil
}

func (e *Env) addressOf(x ast.Expr) Value {
	if cl, ok := x.(*ast.CompositeLit); ok {
		v := e.composite(cl)
		if ev, isErr := v.(ErrV); isErr {
			return ev
		}
		a := e.x.alloc()
		e.st.mem[a] = v
		t := e.typeOf(cl)
		var pt types.Type
		if t != nil {
			pt = types.NewPointer(t)
		}
		return PtrV{Alloc: a, Nil: FalseT, Typ: pt}
	}
	root, path := rootAndPath(x)
	if root == nil {
		unsupported("%s: address of %T", e.where, x)
	}
	var obj types.Object
	if info := e.info(); info != nil {
		obj = info.Uses[root]
	}
	if obj == nil {
		unsupported("address of unknown variable %s", root.Name)
	}
	cur, ok := e.st.vars[obj]
	if !ok {
		unsupported("%s: address of package-level variable %s", e.where, root.Name)
	}
	var pt types.Type
	if t := e.typeOf(x); t != nil {
		pt = types.NewPointer(t)
	}
	switch c := cur.(type) {
	case RefV:
		return PtrV{Alloc: c.Alloc, Path: path, Nil: FalseT, Typ: pt}
	case PtrV:
		return PtrV{Alloc: c.Alloc, Path: append(append([]string{}, c.Path...), path...), Nil: FalseT, Typ: pt}
	}
	alloc := e.x.alloc()
	e.st.mem[alloc] = cur
	e.st.vars[obj] = RefV{Alloc: alloc, Typ: obj.Type()}
	return PtrV{Alloc: alloc, Path: path, Nil: FalseT, Typ: pt}
}

func (e *Env) selector(n *ast.SelectorExpr) Value {
	// qualified identifier pkg.Name
	if id, ok := n.X.(*ast.Ident); ok {
		if info := e.info(); info != nil {
			if pn, ok := info.Uses[id].(*types.PkgName); ok {
				return e.qualified(pn.Imported(), n.Sel.Name)
			}
		}
		if !e.isBound(id.Name) && e.contract {
			// contract text: package by name
			if p := e.x.findPkgByName(e.pkg, id.Name); p != nil {
				if !e.hasLocal(id.Name) {
					return e.qualified(p, n.Sel.Name)
				}
			}
		}
	}
	base := e.expr(n.X)
	return e.fieldOf(base, n.Sel.Name, n)
}

func (e *Env) isBound(name string) bool {
	if _, ok := e.names[name]; ok {
		return true
	}
	_, ok := e.bound[name]
	return ok
}

func (e *Env) hasLocal(name string) bool {
	for o := range e.st.vars {
		if o.Name() == name {
			return true
		}
	}
	return false
}

func (e *Env) qualified(p *types.Package, name string) Value {
	obj := p.Scope().Lookup(name)
	switch o := obj.(type) {
	case *types.Const:
		return e.constVal(o.Val(), o.Type())
	case *types.Var:
		return e.x.globalValue(e, o)
	case *types.Func:
		return FuncV{o}
	}
	unsupported("%s: %s.%s", e.where, p.Name(), name)
	return nil
}

func (e *Env) fieldOf(base Value, name string, at ast.Node) Value {
	switch b := base.(type) {
	case PtrV:
		cell := e.deref(b, at)
		return e.fieldOf(cell, name, at)
	case StructV:
		if v, ok := b.F[name]; ok {
			return v
		}
		// embedded structs / promoted fields
		for _, f := range b.F {
			if sv, ok := f.(StructV); ok {
				if v, ok := sv.F[name]; ok {
					return v
				}
			}
			if pv, ok := f.(PtrV); ok && pv.Alloc != 0 {
				if sv, ok := navigate(e.x.memCell(e.st, pv.Alloc), pv.Path).(StructV); ok {
					if v, ok := sv.F[name]; ok {
						return v
					}
				}
			}
		}
		unsupported("%s: no field %s", e.where, name)
	case ErrV:
		if name == "Offset" {
			return Scalar{b.Off, intT}
		}
	case AbsV:
		return e.x.absField(e, b, name)
	}
	unsupported("%s: field %s of %T", e.where, name, base)
	return nil
}

func (e *Env) composite(n *ast.CompositeLit) Value {
	t := e.typeOf(n)
	if t == nil {
		unsupported("%s: composite literal without type information", e.where)
	}
	if as := abstractSort(t); as != nil {
		if len(n.Elts) > 0 {
			unsupported("%s: composite literal of abstract type %s with fields", e.where, t)
		}
		return Scalar{App("zero$"+as.Name, as), t}
	}
	switch u := t.Underlying().(type) {
	case *types.Struct:
		if ev, ok := e.x.errorStruct(e, t, n); ok {
			return ev
		}
		f := map[string]Value{}
		for i := 0; i < u.NumFields(); i++ {
			f[u.Field(i).Name()] = nil
		}
		for i, el := range n.Elts {
			if kv, ok := el.(*ast.KeyValueExpr); ok {
				k := kv.Key.(*ast.Ident).Name
				f[k] = e.assignable(e.expr(kv.Value), fieldType(u, k))
			} else {
				f[u.Field(i).Name()] = e.assignable(e.expr(el), u.Field(i).Type())
			}
		}
		for i := 0; i < u.NumFields(); i++ {
			if f[u.Field(i).Name()] == nil {
				f[u.Field(i).Name()] = e.zeroValue(u.Field(i).Type(), true)
			}
		}
		return StructV{F: f, Typ: t}
	case *types.Slice:
		if e.R().sortOf(u.Elem()) == nil {
			var el []Value
			for _, ex := range n.Elts {
				el = append(el, e.expr(ex))
			}
			return SeqV{Elems: el, Len: IntC(int64(len(el))), Typ: t}
		}
		arr := ConstArr(e.zeroElem(u.Elem()))
		idx := int64(0)
		for _, el := range n.Elts {
			if kv, ok := el.(*ast.KeyValueExpr); ok {
				k := e.toIntTerm(e.expr(kv.Key))
				idx, _ = k.Int64()
				el = kv.Value
			}
			v := e.assignable(e.expr(el), u.Elem()).(Scalar)
			arr = Store(arr, IntC(idx), v.T)
			idx++
		}
		a := e.x.alloc()
		e.st.mem[a] = ArrayV{T: arr, N: -1, Elem: u.Elem()}
		return SliceV{Alloc: a, Off: IntC(0), Len: IntC(idx), Cap: IntC(idx), Elem: u.Elem(), Nil: FalseT, Typ: t}
	case *types.Array:
		if _, ok := u.Elem().Underlying().(*types.Basic); !ok || e.R().sortOf(u.Elem()) == nil {
			return e.x.compositeArrayOf(e, n, u, t)
		}
		arr := ConstArr(e.zeroElem(u.Elem()))
		idx := int64(0)
		for _, el := range n.Elts {
			if kv, ok := el.(*ast.KeyValueExpr); ok {
				k := e.toIntTerm(e.expr(kv.Key))
				idx, _ = k.Int64()
				el = kv.Value
			}
			v := e.assignable(e.expr(el), u.Elem()).(Scalar)
			arr = Store(arr, IntC(idx), v.T)
			idx++
		}
		return ArrayV{T: arr, N: u.Len(), Elem: u.Elem(), Typ: t}
	case *types.Map:
		return e.x.compositeMap(e, n, u, t)
	}
	unsupported("%s: composite literal of %s", e.where, t)
	return nil
}

func fieldType(u *types.Struct, name string) types.Type {
	for i := 0; i < u.NumFields(); i++ {
		if u.Field(i).Name() == name {
			return u.Field(i).Type()
		}
	}
	return nil
}

// assignable converts v for assignment to a location of type t (constants, nil).
func (e *Env) assignable(v Value, t types.Type) Value {
	if t == nil {
		return v
	}
	switch s := v.(type) {
	case UConst:
		return e.convert(s, t)
	case NilV:
		return e.zeroValue(t, true)
	case Scalar:
		if !isMathInt(s.Typ) {
			return Scalar{s.T, t}
		}
		return e.convert(s, t)
	case ErrV:
		return s
	case PtrV:
		// concrete pointer assigned to an interface: keep
		return s
	}
	return v
}

func (x *Exec) findPkgByName(from *packages.Package, name string) *types.Package {
	if from != nil {
		for path, p := range from.Imports {
			if p.Name == name || strings.HasSuffix(path, "/"+name) {
				return p.Types
			}
		}
	}
	for path, p := range x.U.Pkgs {
		if p.Name == name && (from == nil || strings.HasSuffix(path, "/"+name) || !strings.Contains(path, "/")) {
			return p.Types
		}
	}
	for _, p := range x.U.Pkgs {
		if p.Name == name {
			return p.Types
		}
	}
	return nil
}

var _ = fmt.Sprintf

// tdiv / tmod: Go's truncated division; when the dividend is known to be non-negative (syntactically
// or by an assumption already on the path) it coincides with SMT's euclidean div/mod.
// knownPositive: the divisor is a positive constant or has a positive lower bound on this path.
func (e *Env) knownPositive(b *Term) bool {
	if b.Op == "const" {
		return b.V.Sign() > 0
	}
	if e.st != nil && b.S == IntS {
		if iv := e.termBounds(b, e.varBounds(), map[*Term]*ival{}, 0); iv != nil && iv.lo.Sign() > 0 {
			return true
		}
	}
	return false
}

func (e *Env) tdiv(a, b *Term) *Term {
	if e.knownPositive(b) && e.knownNonNeg(a, 0) {
		q := EDiv(a, b)
		e.divFacts(q, a, b)
		return q
	}
	return TDiv(a, b)
}

// divFacts: for a division by a non-constant positive term, the linear consequences 0 <= q <= a of
// its definition (the solvers treat such a division as non-linear and do not derive them).
func (e *Env) divFacts(q, a, b *Term) {
	if b.Op == "const" || q.Op != "div" || e.st == nil {
		return
	}
	e.st.assume(And(Le(IntC(0), q), Le(q, a)))
}

func (e *Env) tmod(a, b *Term) *Term {
	if e.knownPositive(b) && e.knownNonNeg(a, 0) {
		return EMod(a, b)
	}
	return TMod(a, b)
}

func (e *Env) knownNonNeg(t *Term, depth int) bool {
	if depth > 6 {
		return false
	}
	switch t.Op {
	case "const":
		return t.V.Sign() >= 0
	case "var":
		if strings.Contains(t.Name, ".len!") || strings.Contains(t.Name, ".cap!") {
			return true
		}
	case "+", "*":
		all := true
		for _, a := range t.Args {
			if !e.knownNonNeg(a, depth+1) {
				all = false
				break
			}
		}
		if all {
			return true
		}
	case "div", "mod":
		if t.Args[1].Op == "const" && t.Args[1].V.Sign() > 0 {
			if t.Op == "mod" || e.knownNonNeg(t.Args[0], depth+1) {
				return true
			}
		}
	case "ite":
		if e.knownNonNeg(t.Args[1], depth+1) && e.knownNonNeg(t.Args[2], depth+1) {
			return true
		}
	case "bv2nat":
		return true
	}
	if e.nonneg != nil && e.nonneg[t] {
		return true
	}
	if depth == 0 && e.st != nil && t.S == IntS {
		if b := e.termBounds(t, e.varBounds(), map[*Term]*ival{}, 0); b != nil && b.lo.Sign() >= 0 {
			return true
		}
	}
	if e.st != nil {
		for _, p := range e.st.pc {
			if p.Op == "<=" && p.Args[0].Op == "const" && p.Args[0].V.Sign() >= 0 && p.Args[1] == t {
				return true
			}
			if p.Op == "<" && p.Args[0].Op == "const" && p.Args[0].V.Sign() >= -1 && p.Args[1] == t {
				return true
			}
		}
	}
	return false
}

// mergeLoose: like mergeVal, but immutable strings from different allocations are merged into a
// fresh allocation whose contents are chosen by the guard.
func (e *Env) mergeLoose(g *Term, a, b Value) Value {
	sa, ok1 := a.(SliceV)
	sb, ok2 := b.(SliceV)
	if ok1 && ok2 && sa.IsString && sb.IsString && sa.Alloc != sb.Alloc {
		aa := e.x.memArr(e.st, sa.Alloc, sa.path)
		ba := e.x.memArr(e.st, sb.Alloc, sb.path)
		if termEq(sa.Off, sb.Off) {
			al := e.x.alloc()
			e.st.mem[al] = ArrayV{T: Ite(g, aa.T, ba.T), N: -1, Elem: sa.Elem}
			ln := Ite(g, sa.Len, sb.Len)
			return SliceV{Alloc: al, Off: sa.Off, Len: ln, Cap: ln, Elem: sa.Elem, IsString: true, Nil: FalseT, Typ: sa.Typ}
		}
	}
	return mergeVal(g, a, b)
}

func isBitop(op token.Token) bool {
	switch op {
	case token.AND, token.OR, token.XOR, token.AND_NOT, token.SHL, token.SHR:
		return true
	}
	return false
}
