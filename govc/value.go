package main

import (
	"fmt"
	"go/constant"
	"go/types"
	"math/big"
)

// Value is the symbolic value of a Go expression.
type Value interface{}

// Scalar: integer / bool / uninterpreted scalar term with its Go type.
type Scalar struct {
	T   *Term
	Typ types.Type
}

// UConst: untyped constant (adapts to the other operand).
type UConst struct {
	V constant.Value
}

// SliceV: slice or string header; contents live in State.mem[Alloc] (ArrayV).
type SliceV struct {
	Alloc    int
	Off, Len *Term
	Cap      *Term
	Elem     types.Type
	IsString bool
	Nil      *Term // Bool: slice is nil
	Typ      types.Type
	path     []string // field path inside the allocation (array field of a struct cell)
}

// ArrayV: array value (functional).
type ArrayV struct {
	T    *Term
	N    int64
	Elem types.Type
	Typ  types.Type
}

// PtrV: pointer to an allocation (array, struct, big.Int cell ...), optional field path.
type PtrV struct {
	Alloc int
	Path  []string
	Nil   *Term
	Typ   types.Type // pointer type
}

// StructV: struct value.
type StructV struct {
	F   map[string]Value
	Typ types.Type
}

// ErrV: error value (flattened chain): Nil, Kind = sentinel id reachable with errors.Is,
// Type = dynamic type tag of the outermost error, Off = Offset field when it has one.
type ErrV struct {
	Nil  *Term
	Kind *Term
	Type *Term
	Off  *Term
}

// AbsV: value of an abstract sort (interfaces, library objects), a plain term.
type AbsV struct {
	T   *Term
	Typ types.Type
}

// TupleV: multiple results.
type TupleV []Value

// FuncV: reference to a function (only callable).
type FuncV struct {
	Obj *types.Func
}

func (s Scalar) String() string { return fmt.Sprintf("%s:%s", s.T, s.Typ) }

// ---------------------------------------------------------------- representation

// Repr decides how Go basic types are modelled.
type Repr struct {
	BV map[types.BasicKind]bool // kinds modelled as bit vectors
}

func normKind(k types.BasicKind) types.BasicKind {
	switch k {
	case types.UntypedInt, types.UntypedRune:
		return types.Int
	}
	return k
}

func basicOf(t types.Type) (*types.Basic, bool) {
	b, ok := t.Underlying().(*types.Basic)
	return b, ok
}

type intInfo struct {
	W      int
	Signed bool
}

func intInfoOf(t types.Type) (intInfo, bool) {
	b, ok := basicOf(t)
	if !ok {
		return intInfo{}, false
	}
	switch b.Kind() {
	case types.Int, types.Int64, types.UntypedInt:
		return intInfo{64, true}, true
	case types.Int8:
		return intInfo{8, true}, true
	case types.Int16:
		return intInfo{16, true}, true
	case types.Int32, types.UntypedRune:
		return intInfo{32, true}, true
	case types.Uint, types.Uint64, types.Uintptr:
		return intInfo{64, false}, true
	case types.Uint8:
		return intInfo{8, false}, true
	case types.Uint16:
		return intInfo{16, false}, true
	case types.Uint32:
		return intInfo{32, false}, true
	}
	return intInfo{}, false
}

func (r *Repr) isBV(t types.Type) bool {
	b, ok := basicOf(t)
	if !ok || r == nil {
		return false
	}
	return r.BV[normKind(b.Kind())]
}

// sortOf gives the SMT sort of a scalar Go type.
// abstractTypes: named types of dependencies that are modelled as uninterpreted sorts (declared with
// `abstract <type> <Sort>` in the dependency specs).
var abstractTypes = map[string]string{}

func abstractSort(t types.Type) *Sort {
	if n, ok := t.(*types.Named); ok && n.Obj().Pkg() != nil {
		if s, ok := abstractTypes[n.Obj().Pkg().Path()+"."+n.Obj().Name()]; ok {
			return UnS(s)
		}
	}
	return nil
}

func (r *Repr) sortOf(t types.Type) *Sort {
	if s := abstractSort(t); s != nil {
		return s
	}
	if isBigIntType(t) {
		return IntS
	}
	if _, ok := t.Underlying().(*types.Interface); ok && !isErrorTypeV(t) {
		return UnS(absSortNameV(t))
	}
	if b, ok := basicOf(t); ok {
		if b.Info()&types.IsBoolean != 0 {
			return BoolS
		}
		if ii, ok := intInfoOf(t); ok {
			if r.isBV(t) {
				return BVS(ii.W)
			}
			return IntS
		}
		if b.Info()&types.IsFloat != 0 {
			return UnS("Float")
		}
	}
	return nil
}

func pow2(n int) *big.Int { return new(big.Int).Lsh(big.NewInt(1), uint(n)) }

func (ii intInfo) min() *big.Int {
	if ii.Signed {
		return new(big.Int).Neg(pow2(ii.W - 1))
	}
	return big.NewInt(0)
}
func (ii intInfo) max() *big.Int {
	if ii.Signed {
		return new(big.Int).Sub(pow2(ii.W-1), big.NewInt(1))
	}
	return new(big.Int).Sub(pow2(ii.W), big.NewInt(1))
}

// rangeOf: the range constraint of an Int-represented value of type t.
func (r *Repr) rangeOf(x *Term, t types.Type) *Term {
	if isMathInt(t) {
		return TrueT
	}
	ii, ok := intInfoOf(t)
	if !ok || r.isBV(t) || x.S != IntS {
		return TrueT
	}
	return And(Le(IntB(ii.min()), x), Le(x, IntB(ii.max())))
}

// wrap an Int-represented mathematical result into type t.
func (r *Repr) wrap(x *Term, t types.Type) *Term {
	ii, ok := intInfoOf(t)
	if !ok {
		return x
	}
	if x.Op == "const" {
		v := new(big.Int).Mod(x.V, pow2(ii.W))
		if ii.Signed {
			v = toSigned(v, ii.W)
		}
		return IntB(v)
	}
	if ii.Signed {
		h := IntB(pow2(ii.W - 1))
		return Sub(EMod(Add(x, h), IntB(pow2(ii.W))), h)
	}
	return EMod(x, IntB(pow2(ii.W)))
}

func constToBig(v constant.Value) (*big.Int, bool) {
	v = constant.ToInt(v)
	if v.Kind() != constant.Int {
		return nil, false
	}
	if i, ok := constant.Int64Val(v); ok {
		return big.NewInt(i), true
	}
	b, ok := new(big.Int).SetString(v.ExactString(), 10)
	return b, ok
}

func isErrorTypeV(t types.Type) bool {
	return types.Identical(t, types.Universe.Lookup("error").Type())
}

func absSortNameV(t types.Type) string {
	s := types.TypeString(t, func(p *types.Package) string { return p.Name() })
	r := []rune{}
	for _, c := range s {
		switch {
		case c == '*':
			r = append(r, []rune("Ptr_")...)
		case c == '.' || c == '[' || c == ']' || c == '/':
			r = append(r, '_')
		case c == ' ' || c == '{' || c == '}':
		default:
			r = append(r, c)
		}
	}
	return "S_" + string(r)
}
