package main

import (
	"crypto/sha256"
	"encoding/json"
	"flag"
	"fmt"
	"os"
	"path/filepath"
	"sort"
	"strconv"
	"strings"
	"time"
)

type Options struct {
	Repo    string
	Verif   string
	Tier    string
	Timeout int
	Workers int
	Seed    int64
	Verbose bool
	Only    string
	Scratch string
}

func main() {
	if len(os.Args) < 2 {
		fmt.Fprintln(os.Stderr, "usage: govc check <property> [flags] | govc list | govc replay <property> <file>")
		os.Exit(2)
	}
	cmd := os.Args[1]
	fs := flag.NewFlagSet(cmd, flag.ExitOnError)
	var opt Options
	fs.StringVar(&opt.Repo, "repo", "/repo", "repository under verification")
	fs.StringVar(&opt.Verif, "verif", "/verif", "verification directory")
	fs.StringVar(&opt.Tier, "tier", "", "quick or thorough (default: $VERIF_TIER or quick)")
	fs.IntVar(&opt.Timeout, "timeout", 0, "per-obligation solver timeout in seconds")
	fs.IntVar(&opt.Workers, "j", 14, "parallel solver jobs")
	fs.BoolVar(&opt.Verbose, "v", false, "verbose")
	fs.StringVar(&opt.Only, "only", "", "restrict to functions/lemmas whose name contains this text (debugging)")
	fs.StringVar(&opt.Scratch, "keep", "", "keep the generated .smt2 files in this directory (debugging)")
	var args []string
	rest := os.Args[2:]
	for len(rest) > 0 && !strings.HasPrefix(rest[0], "-") {
		args = append(args, rest[0])
		rest = rest[1:]
	}
	fs.Parse(rest)
	args = append(args, fs.Args()...)
	if opt.Tier == "" {
		opt.Tier = os.Getenv("VERIF_TIER")
	}
	if opt.Tier == "" {
		opt.Tier = "quick"
	}
	if opt.Timeout == 0 {
		opt.Timeout = 60
		if opt.Tier == "thorough" {
			opt.Timeout = 180
		}
	}
	if s := os.Getenv("VERIF_SEED"); s != "" {
		opt.Seed, _ = strconv.ParseInt(s, 10, 64)
	}
	switch cmd {
	case "check":
		if len(args) < 1 {
			fmt.Fprintln(os.Stderr, "govc check <property>")
			os.Exit(2)
		}
		os.Exit(runCheck(args[0], &opt))
	case "list":
		os.Exit(runList(&opt))
	case "asm":
		u, err := loadAll(&opt)
		if err != nil {
			fmt.Fprintln(os.Stderr, err)
			os.Exit(2)
		}
		for fn, src := range u.AsmModels {
			fmt.Printf("// ---- %s\n%s\n", fn, src)
		}
		for _, n := range u.Notes {
			fmt.Println("// note:", n)
		}
		os.Exit(0)
	case "replay":
		if len(args) < 2 {
			fmt.Fprintln(os.Stderr, "govc replay <property> <file>")
			os.Exit(2)
		}
		os.Exit(runReplay(args[0], args[1], &opt))
	default:
		fmt.Fprintln(os.Stderr, "unknown command", cmd)
		os.Exit(2)
	}
}

func loadAll(opt *Options) (*Universe, error) {
	return loadAllTags(opt, "")
}

func loadAllTags(opt *Options, tags string) (*Universe, error) {
	u, err := loadUniverse(opt.Repo, tags)
	if err != nil {
		return nil, err
	}
	if err := u.loadDeps(filepath.Join(opt.Verif, "contracts", "deps")); err != nil {
		return nil, err
	}
	u.Notes = append(u.Notes, u.resolveSameAs()...)
	return u, nil
}

func hasProp(ps []string, id string) bool {
	for _, p := range ps {
		if p == id {
			return true
		}
	}
	return false
}

func runList(opt *Options) int {
	u, err := loadAll(opt)
	if err != nil {
		fmt.Fprintln(os.Stderr, "load:", err)
		return 2
	}
	var keys []string
	for k := range u.Contracts {
		keys = append(keys, k)
	}
	sort.Strings(keys)
	for _, k := range keys {
		c := u.Contracts[k]
		fmt.Printf("%-80s props=%v assumed=%v inline=%v\n", k, c.Props, c.Assumed, c.Inline)
	}
	for _, l := range u.Lemmas {
		fmt.Printf("lemma %-60s props=%v\n", l.PkgPath+"."+l.Name, l.Props)
	}
	return 0
}

// knownObls: obligations of the current run that failed exactly as a listed known finding says.
var knownObls []string

type Evidence struct {
	PropertyID  string                 `json:"property_id"`
	Tier        string                 `json:"tier"`
	Seed        int64                  `json:"seed"`
	Level       string                 `json:"level"`
	Coverage    map[string]interface{} `json:"coverage"`
	Assumptions []string               `json:"assumptions"`
	WallS       float64                `json:"wall_s"`
	Violations  int                    `json:"violations"`
}

func runCheck(prop string, opt *Options) int {
	t0 := time.Now()
	u, err := loadAll(opt)
	if err != nil {
		fmt.Fprintln(os.Stderr, "UNDECIDED: cannot load the repository:", err)
		return 2
	}
	var results []*FuncResult
	var contracts []*Contract
	var keys []string
	for k, c := range u.Contracts {
		if !c.Assumed && hasProp(c.Props, prop) {
			keys = append(keys, k)
		}
	}
	sort.Strings(keys)
	for _, k := range keys {
		contracts = append(contracts, u.Contracts[k])
	}
	for _, c := range contracts {
		if opt.Only != "" && !strings.Contains(c.Key, opt.Only) {
			continue
		}
		results = append(results, u.verifyContractAll(c)...)
	}
	for _, l := range u.Lemmas {
		if hasProp(l.Props, prop) && !l.Axiom {
			if opt.Only != "" && !strings.Contains(l.Name, opt.Only) {
				continue
			}
			results = append(results, u.verifyLemma(l))
		}
	}
	// second pass under an extra build tag for packages that ask for it
	doneTags := map[string]bool{}
	for _, c := range contracts {
		tag := u.AlsoTags[c.PkgPath]
		if tag == "" || doneTags[tag+"|"+c.PkgPath] {
			continue
		}
		doneTags[tag+"|"+c.PkgPath] = true
		u2, err := loadAllTags(opt, tag)
		if err != nil {
			fmt.Fprintf(os.Stderr, "UNDECIDED: cannot load the repository with build tag %s: %v\n", tag, err)
			return 2
		}
		var k2 []string
		for k, c2 := range u2.Contracts {
			if !c2.Assumed && hasProp(c2.Props, prop) && c2.PkgPath == c.PkgPath {
				k2 = append(k2, k)
			}
		}
		sort.Strings(k2)
		for _, k := range k2 {
			c2 := u2.Contracts[k]
			if opt.Only != "" && !strings.Contains(c2.Key, opt.Only) {
				continue
			}
			// only the functions that the tag replaces: those without a Go body in the default build
			if p0 := u.Pkgs[c2.PkgPath]; p0 != nil {
				if fd0, _ := findFunc(p0, c2.Key); fd0 != nil && fd0.Body != nil {
					continue
				}
			}
			for _, r := range u2.verifyContractAll(c2) {
				r.Name += "[tag " + tag + "]"
				for _, o := range r.Obls {
					o.Name = strings.Replace(o.Name, "#", "[tag "+tag+"]#", 1)
					o.Func += "[tag " + tag + "]"
				}
				results = append(results, r)
			}
		}
	}
	extra := runExtras(prop, u, opt)
	if len(results) == 0 && len(extra.Obls) == 0 {
		fmt.Fprintf(os.Stderr, "UNDECIDED: no contracts are registered for %s\n", prop)
		return 2
	}
	scratch, _ := os.MkdirTemp("", "govc-"+prop+"-")
	if opt.Scratch != "" {
		scratch = opt.Scratch
		os.MkdirAll(scratch, 0o755)
	} else {
		defer os.RemoveAll(scratch)
	}
	var all []*Obl
	for _, r := range results {
		all = append(all, r.Obls...)
	}
	all = append(all, extra.Obls...)
	dischargeAll(all, scratch, opt.Timeout, opt.Tier == "thorough", opt.Workers)

	// classify
	var failed, covers []*Obl
	var unsupportedFns []string
	nObl, nDis := 0, 0
	byBackend := map[string]int{}
	solverTime := 0.0
	for _, r := range results {
		if r.Unsupported != "" {
			unsupportedFns = append(unsupportedFns, r.Name+": "+r.Unsupported)
		}
	}
	for _, o := range all {
		solverTime += o.Time
		if o.Cover {
			covers = append(covers, o)
			if o.Status == "unsat" {
				failed = append(failed, o)
			}
			continue
		}
		nObl++
		if o.Status == "unsat" {
			nDis++
			byBackend[o.Solver]++
		} else {
			failed = append(failed, o)
		}
	}
	kf := loadKnownFindings(filepath.Join(opt.Verif, "known_findings.txt"))
	exit := 0
	violations := 0
	replayDir := filepath.Join(opt.Verif, "replays", prop)
	var failNames []string
	knownObls = nil
	skipped := map[string]int{}
	for _, o := range failed {
		if o.Cover {
			fmt.Printf("UNDECIDED: vacuity guard %s is unsatisfiable: the assumptions of %s are contradictory (%s)\n", o.Name, o.Func, o.Where)
			if exit == 0 {
				exit = 2
			}
			continue
		}
		if o.Status == "skipped" {
			skipped[o.Func]++
			continue
		}
		failNames = append(failNames, o.Name)
		if k := kf.match(prop, o.Name); k != nil {
			knownObls = append(knownObls, o.Name)
			if strings.HasPrefix(k.Text, "property=") {
				fmt.Printf("KNOWN-FINDING: %s\n", k.Text)
			} else {
				fmt.Printf("KNOWN-FINDING: property=%s %s\n", prop, k.Text)
			}
			continue
		}
		os.MkdirAll(replayDir, 0o755)
		rp := tryReplay(u, prop, o, opt, replayDir)
		violations++
		exit = 1
		line := fmt.Sprintf("VIOLATION property=%s replay=%s", prop, rp.Path)
		if !rp.Confirmed {
			line += " obligation=" + o.Name + " no-failing-input-found"
		} else {
			line += " obligation=" + o.Name
		}
		fmt.Println(line)
	}
	for fn, n := range skipped {
		fmt.Printf("NOTE: %d further obligations of %s were not attempted after %d of them had failed\n", n, fn, maxFailPerFunc)
	}
	for _, x := range extra.Violations {
		violations++
		exit = 1
		fmt.Println(x)
	}
	if len(unsupportedFns) > 0 {
		for _, s := range unsupportedFns {
			fmt.Printf("UNDECIDED: %s\n", s)
		}
		if exit == 0 {
			exit = 2
		}
	}
	if opt.Verbose || exit != 0 {
		for _, o := range all {
			if o.Status != "unsat" && !(o.Cover && o.Status != "unsat") {
				fmt.Printf("  %-8s %-60s %s %.2fs %s\n", o.Status, o.Name, o.Solver, o.Time, o.Where)
			}
		}
	}
	if opt.Verbose {
		for _, o := range all {
			if o.Status == "unsat" {
				fmt.Printf("  ok       %-60s %s %.2fs\n", o.Name, o.Solver, o.Time)
			}
		}
	}
	// evidence
	ev := buildEvidence(prop, opt, u, results, all, extra, nObl, nDis, byBackend, solverTime, violations, unsupportedFns, time.Since(t0).Seconds())
	os.MkdirAll(filepath.Join(opt.Verif, "evidence"), 0o755)
	data, _ := json.MarshalIndent(ev, "", " ")
	os.WriteFile(filepath.Join(opt.Verif, "evidence", prop+".json"), data, 0o644)
	coverSat := 0
	for _, c := range covers {
		if c.Status == "sat" {
			coverSat++
		}
	}
	fmt.Printf("%s %s: %d obligations, %d discharged, %d failed, %d functions/lemmas, covers %d/%d sat, %.1fs\n",
		prop, opt.Tier, nObl, nDis, nObl-nDis, len(results), coverSat, len(covers), time.Since(t0).Seconds())
	return exit
}

func buildEvidence(prop string, opt *Options, u *Universe, results []*FuncResult, all []*Obl, extra *ExtraResult,
	nObl, nDis int, byBackend map[string]int, solverTime float64, violations int, unsupportedFns []string, wall float64) *Evidence {
	trusted := map[string]bool{}
	inlined := map[string]bool{}
	var fns []map[string]interface{}
	trivial := 0
	for _, r := range results {
		for _, t := range r.Trusted {
			trusted[t] = true
		}
		for _, t := range r.Inlined {
			inlined[t] = true
		}
		trivial += r.Trivial
		m := map[string]interface{}{"name": r.Name, "obligations": len(r.Obls)}
		if r.Contract != nil {
			m["contract"] = strings.TrimPrefix(r.Contract.Where, opt.Repo+"/")
			m["contract_sha256"] = fmt.Sprintf("%x", sha256.Sum256([]byte(strings.Join(r.Contract.Text, "\n"))))[:16]
			if len(r.Contract.ReprBV) > 0 {
				m["bitvector_types"] = r.Contract.ReprBV
			}
		}
		if r.Unsupported != "" {
			m["unsupported"] = r.Unsupported
		}
		if r.AsmModel {
			m["assembly"] = "proved on the Go transliteration of the TEXT routine generated by govc/asm.go on this run"
		}
		fns = append(fns, m)
	}
	var samples []map[string]interface{}
	type sl struct {
		n string
		t float64
	}
	var slow []sl
	for _, o := range all {
		if o.Cover {
			continue
		}
		slow = append(slow, sl{o.Name, o.Time})
		if len(samples) < 5 && o.Status == "unsat" {
			samples = append(samples, map[string]interface{}{"obligation": o.Name, "kind": o.Kind, "answered_by": o.Solver, "time_s": o.Time, "where": o.Where, "goal": truncate(o.Goal.String(), 300)})
		}
	}
	sort.Slice(slow, func(i, j int) bool { return slow[i].t > slow[j].t })
	var slowest []map[string]interface{}
	for i := 0; i < len(slow) && i < 5; i++ {
		slowest = append(slowest, map[string]interface{}{"obligation": slow[i].n, "time_s": slow[i].t})
	}
	coverN, coverSat := 0, 0
	for _, o := range all {
		if o.Cover {
			coverN++
			if o.Status == "sat" {
				coverSat++
			}
		}
	}
	tb := []string{"govc itself (loader, symbolic executor, SMT printer), z3 4.8.12 / z3 5.1.0 / cvc5 1.0.3, Go toolchain"}
	for _, t := range sortedKeys(trusted) {
		tb = append(tb, "assumed contract: "+t)
	}
	for _, t := range extra.Trusted {
		tb = append(tb, t)
	}
	level := "proof"
	cov := map[string]interface{}{
		// obligations claimed by this run: all generated ones except those that fail exactly as a listed
		// known finding says (they are reported under known_finding_obligations, not counted as proved)
		"obligations":              nObl - len(knownObls),
		"generated_obligations":    nObl,
		"known_finding_obligations": knownObls,
		"discharged":               nDis,
		"checker_cmd":              fmt.Sprintf("/verif/bin/govc check %s -tier %s", prop, opt.Tier),
		"trusted_base":             tb,
		"functions_under_contract": fns,
		"by_backend":               byBackend,
		"solver_time_s":            solverTime,
		"slowest":                  slowest,
		"samples":                  samples,
		"trivially_true_by_simplifier": trivial,
		"cover_checks":             map[string]int{"total": coverN, "sat": coverSat},
		"inlined_functions":        sortedKeys(inlined),
		"dropped_by_translation":   []string{"message text of fmt.Errorf/errors.New/panic (only the wrapped sentinel, the dynamic error type and the Offset field are kept)", "strings.Builder.Grow capacity hints", "compiler directives"},
		"integer_model":            "int/int64 are mathematical integers with an overflow obligation on every +,-,* (safe.overflow.*); narrower and unsigned types wrap exactly as in Go; types listed under bitvector_types are fixed-width bit vectors",
	}
	if len(unsupportedFns) > 0 {
		cov["undecided"] = unsupportedFns
	}
	for k, v := range extra.Coverage {
		cov[k] = v
	}
	if extra.Level != "" {
		level = extra.Level
		cov["explanation"] = extra.Explanation
	}
	as := append([]string{}, tb...)
	as = append(as, extra.Assumptions...)
	return &Evidence{PropertyID: prop, Tier: opt.Tier, Seed: opt.Seed, Level: level, Coverage: cov, Assumptions: as, WallS: wall, Violations: violations}
}

func truncate(s string, n int) string {
	if len(s) > n {
		return s[:n] + "..."
	}
	return s
}

// ---------------------------------------------------------------- known findings

type knownFinding struct {
	Prop, Obl, Text string
	Fixed           bool
}
type knownFindings struct{ list []knownFinding }

// file format:  finding: property=<id> obligation=<name-prefix> <text>      |  fixed: property=<id> <commit> <text>
func loadKnownFindings(path string) *knownFindings {
	kf := &knownFindings{}
	data, err := os.ReadFile(path)
	if err != nil {
		return kf
	}
	for _, l := range strings.Split(string(data), "\n") {
		l = strings.TrimSpace(l)
		if strings.HasPrefix(l, "finding:") {
			f := knownFinding{}
			for _, w := range strings.Fields(l) {
				if strings.HasPrefix(w, "property=") {
					f.Prop = strings.TrimPrefix(w, "property=")
				}
				if strings.HasPrefix(w, "obligation=") {
					f.Obl = strings.TrimPrefix(w, "obligation=")
				}
			}
			f.Text = strings.TrimSpace(strings.TrimPrefix(l, "finding:"))
			kf.list = append(kf.list, f)
		}
	}
	return kf
}

func (k *knownFindings) match(prop, obl string) *knownFinding {
	for i := range k.list {
		f := &k.list[i]
		if f.Prop == prop && f.Obl != "" && (obl == f.Obl || strings.HasPrefix(obl, f.Obl+"@")) {
			return f
		}
	}
	return nil
}
