package main

// Models for the framing of text formats: strings.Split with a one-byte separator (a sequence of
// symbolic length whose elements are the maximal separator-free segments of the argument) and
// regexp.Regexp.FindStringSubmatch for patterns of the shape (DIGITS)([CHARS]?) (leftmost-first
// matching by hand: first digit, greedy run, optional marker). Anything else about regexp is
// outside the supported subset.

import (
	"fmt"
	"go/ast"
	"go/token"
	"go/types"
	"strconv"
	"strings"
)

// RegexV: a compiled regular expression known by its pattern text.
type RegexV struct {
	Pattern string
	Typ     types.Type
}

func (e *Env) byteC(c int64) *Term {
	if e.R().sortOf(byteT).K == KBV {
		return BVCi(c, 8)
	}
	return IntC(c)
}

func (e *Env) byteBetween(c *Term, lo, hi int64) *Term {
	if c.S.K == KBV {
		return And(BVCmp("bvule", BVCi(lo, 8), c), BVCmp("bvule", c, BVCi(hi, 8)))
	}
	return And(Le(IntC(lo), c), Le(c, IntC(hi)))
}

// strings.Split(s, sep) with len(sep) == 1.
func (x *Exec) stringsSplit(e *Env, n *ast.CallExpr) (Value, bool) {
	sv, ok1 := e.expr(n.Args[0]).(SliceV)
	pv, ok2 := e.expr(n.Args[1]).(SliceV)
	if !ok1 || !ok2 {
		return nil, false
	}
	if l, ok := x.simplifyWithPC(e.st, pv.Len).Int64(); !ok || l != 1 {
		return nil, false
	}
	x.trusted["strings.Split with a one-byte separator: the maximal separator-free segments of the argument, in order (n separators give n+1 segments)"] = true
	sepArr := x.memArr(e.st, pv.Alloc, pv.path)
	sep := Select(sepArr.T, pv.Off)
	arr := x.memArr(e.st, sv.Alloc, sv.path)
	at := func(k *Term) *Term { return Select(arr.T, Add(sv.Off, k)) }
	cnt := x.fresh("split.n", IntS)
	st := x.fresh("split.st", ArrS(IntS))
	en := x.fresh("split.en", ArrS(IntS))
	i := x.fresh("i", IntS)
	k := x.fresh("k", IntS)
	inr := And(Le(IntC(0), i), Lt(i, cnt))
	e.st.assume(Le(IntC(1), cnt))
	e.st.assume(Eq(Select(st, IntC(0)), IntC(0)))
	e.st.assume(Eq(Select(en, Sub(cnt, IntC(1))), sv.Len))
	e.st.assume(Forall([]*Term{i}, Implies(inr, And(Le(IntC(0), Select(st, i)), Le(Select(st, i), Select(en, i)), Le(Select(en, i), sv.Len)))))
	e.st.assume(Forall([]*Term{i}, Implies(And(Le(IntC(0), i), Lt(i, Sub(cnt, IntC(1)))),
		And(Eq(at(Select(en, i)), sep), Eq(Select(st, Add(i, IntC(1))), Add(Select(en, i), IntC(1)))))))
	e.st.assume(Forall([]*Term{i, k}, Implies(And(inr, Le(Select(st, i), k), Lt(k, Select(en, i))), Ne(at(k), sep))))
	t := e.typeOf(n)
	sym := x.fresh("split.id", IntS)
	return SeqV{Len: cnt, Typ: t, SymID: sym, At: func(ix *Term) Value {
		ln := Sub(Select(en, ix), Select(st, ix))
		return SliceV{Alloc: sv.Alloc, path: sv.path, Off: Add(sv.Off, Select(st, ix)), Len: ln, Cap: ln, Elem: byteT, IsString: true, Nil: FalseT, Typ: types.Typ[types.String]}
	}}, true
}

// parseDigitsMarker recognises (DIGITS+)([CHARS]?) and (DIGITS{1,N})([CHARS]?) with DIGITS = \d or [0-9].
func parseDigitsMarker(p string) (maxRun int64, markers []byte, ok bool) {
	rest := p
	if !strings.HasPrefix(rest, "(") {
		return
	}
	rest = rest[1:]
	switch {
	case strings.HasPrefix(rest, `\d`):
		rest = rest[2:]
	case strings.HasPrefix(rest, `[0-9]`):
		rest = rest[5:]
	default:
		return
	}
	switch {
	case strings.HasPrefix(rest, "+)"):
		rest = rest[2:]
		maxRun = -1
	case strings.HasPrefix(rest, "{1,"):
		j := strings.Index(rest, "})")
		if j < 0 {
			return
		}
		v, err := strconv.ParseInt(rest[3:j], 10, 32)
		if err != nil || v < 1 {
			return
		}
		maxRun = v
		rest = rest[j+2:]
	default:
		return
	}
	if !strings.HasPrefix(rest, "([") || !strings.HasSuffix(rest, "]?)") {
		return
	}
	ms := rest[2 : len(rest)-3]
	if len(ms) == 0 {
		return
	}
	for j := 0; j < len(ms); j++ {
		c := ms[j]
		if c == '\\' || c == '^' || c == '-' || c == '[' || c == ']' || c >= 0x80 || (c >= '0' && c <= '9') {
			return
		}
		markers = append(markers, c)
	}
	return maxRun, markers, true
}

func (x *Exec) regexFindStringSubmatch(e *Env, re RegexV, n *ast.CallExpr) (Value, bool) {
	maxRun, markers, ok := parseDigitsMarker(re.Pattern)
	if !ok {
		unsupported("%s: regular expression %q (only patterns of the shape (\\d+)([...]?) are modelled)", e.where, re.Pattern)
	}
	key, ok := e.expr(n.Args[0]).(SliceV)
	if !ok {
		return nil, false
	}
	x.trusted[fmt.Sprintf("regexp: FindStringSubmatch of %q = leftmost ASCII digit, greedy digit run, optional marker character (three-element result, nil without a digit)", re.Pattern)] = true
	arr := x.memArr(e.st, key.Alloc, key.path)
	at := func(k *Term) *Term { return Select(arr.T, Add(key.Off, k)) }
	isDigit := func(k *Term) *Term { return e.byteBetween(at(k), '0', '9') }
	found := x.fresh("re.found", BoolS)
	a := x.fresh("re.a", IntS)
	b := x.fresh("re.b", IntS)
	m := x.fresh("re.m", IntS)
	k := x.fresh("k", IntS)
	e.st.assume(Implies(Not(found), Forall([]*Term{k}, Implies(And(Le(IntC(0), k), Lt(k, key.Len)), Not(isDigit(k))))))
	e.st.assume(Implies(found, And(Le(IntC(0), a), Lt(a, b), Le(b, key.Len))))
	e.st.assume(Implies(found, Forall([]*Term{k}, Implies(And(Le(IntC(0), k), Lt(k, a)), Not(isDigit(k))))))
	e.st.assume(Implies(found, Forall([]*Term{k}, Implies(And(Le(a, k), Lt(k, b)), isDigit(k)))))
	// instances of the two facts above at the ends of the run (consequences, stated for the solvers)
	e.st.assume(Implies(found, And(isDigit(a), isDigit(Sub(b, IntC(1))))))
	stop := Or(Eq(b, key.Len), Not(isDigit(b)))
	if maxRun > 0 {
		stop = And(Le(Sub(b, a), IntC(maxRun)), Or(Eq(Sub(b, a), IntC(maxRun)), stop))
	}
	e.st.assume(Implies(found, stop))
	var isMark []*Term
	for _, c := range markers {
		isMark = append(isMark, Eq(at(b), e.byteC(int64(c))))
	}
	e.st.assume(Implies(found, Eq(m, Ite(And(Lt(b, key.Len), Or(isMark...)), IntC(1), IntC(0)))))
	e.st.assume(And(Le(IntC(0), m), Le(m, IntC(1))))
	// consequence, stated for the solvers: when the match spans the whole string, the marker group is non-empty
	// exactly when the last character is a marker (the character before an empty marker group is a digit, and
	// markers are not digits)
	last := Sub(key.Len, IntC(1))
	var lastMark []*Term
	for _, c := range markers {
		lastMark = append(lastMark, Eq(at(last), e.byteC(int64(c))))
	}
	e.st.assume(Implies(And(found, Eq(a, IntC(0)), Eq(Add(b, m), key.Len)), Eq(m, Ite(And(Le(IntC(1), key.Len), Or(lastMark...)), IntC(1), IntC(0)))))
	sub := func(lo, hi *Term) Value {
		ln := Sub(hi, lo)
		return SliceV{Alloc: key.Alloc, path: key.path, Off: Add(key.Off, lo), Len: ln, Cap: ln, Elem: byteT, IsString: true, Nil: FalseT, Typ: types.Typ[types.String]}
	}
	return SeqV{Elems: []Value{sub(a, Add(b, m)), sub(a, b), sub(b, Add(b, m))}, Len: Ite(found, IntC(3), IntC(0)), Typ: e.typeOf(n)}, true
}

func regexLiteral(n *ast.CallExpr) (string, bool) {
	if len(n.Args) != 1 {
		return "", false
	}
	bl, ok := n.Args[0].(*ast.BasicLit)
	if !ok || bl.Kind != token.STRING {
		return "", false
	}
	s, err := strconv.Unquote(bl.Value)
	if err != nil {
		return "", false
	}
	return s, true
}
