package main

import (
	"time"
	"strconv"
	"fmt"
	"go/ast"
	"go/types"
	"runtime/debug"
	"sort"
	"strings"

	"golang.org/x/tools/go/packages"
)

var kindByName = map[string]types.BasicKind{
	"byte": types.Uint8, "uint8": types.Uint8, "int8": types.Int8, "uint16": types.Uint16, "int16": types.Int16,
	"rune": types.Int32, "int32": types.Int32, "uint32": types.Uint32, "int": types.Int, "int64": types.Int64,
	"uint": types.Uint, "uint64": types.Uint64, "uintptr": types.Uintptr,
}

func reprFrom(names []string) *Repr {
	r := &Repr{BV: map[types.BasicKind]bool{}}
	for _, n := range names {
		if n == "bv" {
			continue
		}
		k, ok := kindByName[n]
		if !ok {
			unsupported("repr: unknown type %s", n)
		}
		r.BV[k] = true
	}
	return r
}

type FuncResult struct {
	Name        string
	Contract    *Contract
	Obls        []*Obl
	Unsupported string
	Trusted     []string
	Inlined     []string
	Trivial     int
	SrcHash     string
	Lemma       *Lemma
	AsmModel    bool
}

func (u *Universe) newExec(pkg *packages.Package, name string, r *Repr) *Exec {
	na, ns := 0, 0
	return &Exec{U: u, Pkg: pkg, R: r, Name: name, nextAlloc: &na, nextSym: &ns, occ: map[string]int{},
		globals: map[types.Object]Value{}, globalMem: map[int]Value{}, trusted: map[string]bool{}, inlined: map[string]bool{},
		defs: map[string]string{}, opaque: map[string]bool{}, usedLemmas: map[string]bool{}}
}

// verifyContractAll: one verification per specialisation of interface-typed parameters.
func (u *Universe) verifyContractAll(c *Contract) []*FuncResult {
	if len(c.SpecConsts) > 0 {
		var out []*FuncResult
		for name, vals := range c.SpecConsts {
			for _, v := range vals {
				specConstsNow = map[string]int64{name: v}
				out = append(out, u.verifyContract(c, nil))
			}
			break
		}
		specConstsNow = nil
		return out
	}
	if len(c.Specialize) == 0 {
		return []*FuncResult{u.verifyContract(c, nil)}
	}
	var out []*FuncResult
	for p, ts := range c.Specialize {
		for _, t := range ts {
			out = append(out, u.verifyContract(c, map[string]string{p: t}))
		}
		break
	}
	return out
}

func (u *Universe) verifyContract(c *Contract, variant map[string]string) (res *FuncResult) {
	pkg := u.Pkgs[c.PkgPath]
	name := shortPkg(c.PkgPath) + "." + c.Key
	for _, t := range variant {
		name += "[" + t + "]"
	}
	for k, v := range specConstsNow {
		name += fmt.Sprintf("[%s=%d]", k, v)
	}
	if c.Variant != "" {
		name += "#" + c.Variant
	}
	res = &FuncResult{Name: name, Contract: c}
	defer func() {
		if r := recover(); r != nil {
			if ue, ok := r.(*UnsupportedError); ok {
				res.Unsupported = ue.Msg
				return
			}
			res.Unsupported = fmt.Sprintf("internal error: %v\n%s", r, debug.Stack())
		}
	}()
	if pkg == nil {
		unsupported("package %s not loaded", c.PkgPath)
	}
	fd, obj := findFunc(pkg, c.Key)
	if fd != nil && obj != nil && fd.Body == nil {
		// assembly routine: the contract is proved on the Go model generated from the .s text
		if mfd, mobj := findFunc(pkg, c.Key+"AsmModel"); mfd != nil && mfd.Body != nil {
			fd, obj = mfd, mobj
			res.AsmModel = true
		}
	}
	if fd == nil || obj == nil || fd.Body == nil {
		unsupported("function %s not found in %s (contract %s does not bind)", c.Key, c.PkgPath, c.Where)
	}
	x := u.newExec(pkg, name, reprFrom(c.ReprBV))
	x.C, x.Fn, x.Obj = c, fd, obj
	for _, o := range c.Opaque {
		x.opaque[o] = true
	}
	sig := obj.Type().(*types.Signature)
	fr := &frame{pkg: pkg, fn: fd, c: c, sig: sig, name: name}
	x.frames = []*frame{fr}
	st := newState()
	e := x.env(st)
	// parameters
	np := sig.Params().Len()
	if sig.Recv() != nil {
		np++
	}
	if len(c.Params) != np {
		unsupported("contract %s: header has %d parameters, function has %d", c.Where, len(c.Params), np)
	}
	if len(c.Results) != sig.Results().Len() {
		unsupported("contract %s: header has %d results, function has %d", c.Where, len(c.Results), sig.Results().Len())
	}
	bindParam := func(id *ast.Ident, t types.Type, cname string, recv bool) {
		if tn, ok := variant[cname]; ok {
			ct, err := u.resolveType(pkg, ast.NewIdent(tn))
			if err != nil {
				unsupported("%s: specialize %s: %v", c.Where, cname, err)
			}
			t = ct
		}
		v := x.havocNamed(e, t, cname, hasName(c.BVNames, cname))
		if pv, ok := v.(PtrV); ok && recv {
			pv.Nil = FalseT
			v = pv
		}
		x.recordInput(cname, v, t, st)
		if id != nil && id.Name != "_" {
			if o := pkg.TypesInfo.Defs[id]; o != nil {
				st.vars[o] = v
				if cname != id.Name {
					unsupported("contract %s: parameter %q is called %q in the code", c.Where, cname, id.Name)
				}
				return
			}
		}
		// unnamed parameter: keep under a synthetic object so that contracts can mention it
		o := types.NewVar(fd.Pos(), pkg.Types, cname, t)
		st.vars[o] = v
	}
	x.started = time.Now()
	// parameters modelled as fixed-length sequences
	x.seqLens = map[string]int{}
	for pn, ln := range c.SeqLens {
		if v, ok := specConstsNow[ln]; ok {
			x.seqLens[pn] = int(v)
		} else if n, err := strconv.Atoi(ln); err == nil {
			x.seqLens[pn] = n
		} else {
			unsupported("%s: seqlen %s %s: not a number or a specialize constant", c.Where, pn, ln)
		}
	}
	pi := 0
	if sig.Recv() != nil {
		var id *ast.Ident
		if len(fd.Recv.List[0].Names) > 0 {
			id = fd.Recv.List[0].Names[0]
		}
		bindParam(id, sig.Recv().Type(), c.Params[0], true)
		pi = 1
	}
	for _, f := range fd.Type.Params.List {
		if len(f.Names) == 0 {
			bindParam(nil, sig.Params().At(pi-btoi(sig.Recv() != nil)).Type(), c.Params[pi], false)
			pi++
			continue
		}
		for _, nm := range f.Names {
			bindParam(nm, sig.Params().At(pi-btoi(sig.Recv() != nil)).Type(), c.Params[pi], false)
			pi++
		}
	}
	if fd.Type.Results != nil {
		for _, f := range fd.Type.Results.List {
			for _, nm := range f.Names {
				o := pkg.TypesInfo.Defs[nm]
				fr.results = append(fr.results, o)
				if o != nil {
					st.vars[o] = e.zeroValue(o.Type(), true)
				}
			}
		}
	}
	// field-congruence mode: the modulus is read as 0 and arithmetic is over the rationals
	if c.FieldMode != nil {
		x.entry = st.fork()
		fe := x.entryEnv(st)
		fe.where = c.FieldMode.Line
		pv := fe.expr(c.FieldMode.Expr)
		var pt *Term
		switch p := pv.(type) {
		case PtrV:
			pt = navigate(x.memCell(st, p.Alloc), p.Path).(Scalar).T
		case Scalar:
			pt = p.T
		default:
			unsupported("%s: fieldmode expression is %T", c.FieldMode.Line, pv)
		}
		x.fieldModulus = pt
		st.assume(Eq(pt, IntC(0)))
	}
	// preconditions
	x.entry = st.fork()
	pre := x.entryEnv(st)
	for _, r := range c.Requires {
		pre.where = r.Line
		st.assume(pre.boolTerm(pre.expr(r.Expr)))
	}
	x.assumeTheories(st, c.Theories)
	if len(c.Uses) > 0 {
		// requires-free lemmas and axioms named in use clauses are also instantiated at entry (over
		// the parameters); the others only at the return points
		x.applyUses(x.entryEnv(st), c.Uses, "entry")
	}
	x.propagateConsts(st)
	x.entry = st.fork()
	// vacuity guard: the precondition is satisfiable
	x.Obls = append(x.Obls, &Obl{Name: "cover." + name + ".pre", Kind: "cover", PC: x.withGlobals(st.pc), Goal: FalseT, Cover: true, Func: name, Where: c.Where})
	if c.Prefix {
		x.verifyPrefix(st, fd, name)
		res.Obls = x.finishObls()
		res.Trivial = x.trivial
		return res
	}
	outs := x.execBlock(st, fd.Body.List)
	nret := 0
	for _, o := range outs {
		switch o.kind {
		case oReturn:
			x.checkReturn(o.st)
			nret++
		case oNormal:
			if sig.Results().Len() > 0 && len(fr.results) == 0 {
				unsupported("function %s falls off its end", name)
			}
			o.st.res = map[string]Value{}
			for i, ro := range fr.results {
				v, _ := (&Env{x: x, st: o.st}).lookupVar(ro)
				o.st.res[fmt.Sprintf("#%d", i)] = v
			}
			x.checkReturn(o.st)
			nret++
		case oPanic:
		default:
			unsupported("function %s: unexpected control flow outcome %d (label %q)", name, o.kind, o.label)
		}
	}
	res.Obls = x.finishObls()
	res.Trusted = sortedKeys(x.trusted)
	res.Inlined = sortedKeys(x.inlined)
	res.Trivial = x.trivial
	return res
}

func btoi(b bool) int {
	if b {
		return 1
	}
	return 0
}

func (x *Exec) withGlobals(pc []*Term) []*Term {
	return append(append([]*Term{}, x.globalPC...), pc...)
}

// finishObls attaches global assumptions and rec definitions.
func (x *Exec) finishObls() []*Obl {
	var defs strings.Builder
	for _, n := range x.defOrder {
		defs.WriteString(x.defs[n])
		defs.WriteString("\n")
	}
	for _, o := range x.Obls {
		if !o.Cover {
			o.PC = x.withGlobals(o.PC)
		}
		canonBigApps(o)
		if !o.Cover && alphaAssumed(o) {
			o.Status, o.Solver = "unsat", "syntactic (the goal is an assumption)"
		}
		o.Defs = defs.String()
		o.DefNames = x.defOrder
		for _, n := range x.defOrder {
			if b := x.defTerms[n]; b != nil {
				o.DefBodies = append(o.DefBodies, b)
				if x.defIsRec[n] {
					if o.RecDefs == nil {
						o.RecDefs = map[string]*recDef{}
					}
					o.RecDefs[n] = &recDef{params: x.defParams[n], body: b}
				}
			}
		}
	}
	return x.Obls
}

func (x *Exec) recordInput(name string, v Value, t types.Type, st *State) {
	ib := InputBinding{Name: name, Typ: types.TypeString(t, func(p *types.Package) string { return p.Name() }), Sym: map[string]string{}}
	switch s := v.(type) {
	case Scalar:
		ib.Kind = "scalar"
		ib.Sym["val"] = s.T.Name
		if s.T.S.K == KBV {
			ib.Kind = "scalarbv"
		}
		if s.T.S == BoolS {
			ib.Kind = "bool"
		}
	case SliceV:
		ib.Kind = "slice"
		if s.IsString {
			ib.Kind = "string"
		}
		ib.Sym["arr"] = st.mem[s.Alloc].(ArrayV).T.Name
		ib.Sym["len"] = s.Len.Name
		if st.mem[s.Alloc].(ArrayV).T.S.Elem.K == KBV {
			ib.Kind += "bv"
		}
	case ArrayV:
		ib.Kind = "array"
		ib.Sym["arr"] = s.T.Name
		ib.Sym["n"] = fmt.Sprint(s.N)
		if s.T.S.Elem.K == KBV {
			ib.Kind += "bv"
		}
	case PtrV:
		if cell, ok := st.mem[s.Alloc].(ArrayV); ok {
			ib.Kind = "ptrarray"
			ib.Sym["arr"] = cell.T.Name
			ib.Sym["n"] = fmt.Sprint(cell.N)
			if cell.T.S.Elem.K == KBV {
				ib.Kind += "bv"
			}
		} else {
			ib.Kind = "opaque"
		}
	default:
		ib.Kind = "opaque"
	}
	x.inputs = append(x.inputs, ib)
}

// checkReturn: postconditions, panics clauses and the frame at a return point.
func (x *Exec) checkReturn(st *State) {
	c := x.C
	ce := x.entryEnv(st)
	for i, nm := range c.Results {
		ce.names[nm] = st.res[fmt.Sprintf("#%d", i)]
	}
	if len(c.Uses) > 0 {
		ue := x.localEnv(st)
		for i, nm := range c.Results {
			ue.names[nm] = st.res[fmt.Sprintf("#%d", i)]
		}
		x.applyUses(ue, c.Uses, "ret")
	}
	if len(c.Checks) > 0 {
		ue := x.localEnv(st)
		for i, nm := range c.Results {
			ue.names[nm] = st.res[fmt.Sprintf("#%d", i)]
		}
		for i, ck := range c.Checks {
			func() {
				defer func() {
					if r := recover(); r != nil {
						if ue2, ok := r.(*UnsupportedError); ok && strings.Contains(ue2.Msg, "unknown identifier") {
							return // a local that does not exist on this path
						}
						panic(r)
					}
				}()
				ue.where = ck.Line
				t := ue.boolTerm(ue.expr(ck.Expr))
				x.addObl("assert", fmt.Sprintf("check.%d", i+1), st, t, ck.Line)
				st.assume(t)
			}()
		}
	}
	for i, en := range c.Ensures {
		ce.where = en.Line
		t := ce.boolTerm(ce.expr(en.Expr))
		x.addObl("post", fmt.Sprintf("post.%d", i+1), st, t, en.Line)
		st.assume(t) // later postconditions may rely on earlier ones (each is proved in turn)
	}
	for i, pw := range c.PanicsWhen {
		pe := x.entryEnv(x.entry)
		pe.where = pw.Line
		t := pe.boolTerm(pe.expr(pw.Expr))
		x.addObl("panics", fmt.Sprintf("panics.ret.%d", i+1), st, Not(t), pw.Line)
	}
	x.checkFrame(st)
}

type modRange struct {
	alloc  int
	path   string
	whole  bool
	lo, hi *Term // absolute indices
}

// checkFrame: every allocation reachable at entry is unchanged outside the modifies clauses.
func (x *Exec) checkFrame(st *State) {
	seenB := map[string]bool{}
	for i, b := range st.borrowed {
		cell, ok := st.mem[b.alloc]
		if !ok {
			continue
		}
		now, ok := navigate(cell, b.path).(ArrayV)
		key := fmt.Sprintf("%d.%s", b.alloc, strings.Join(b.path, "."))
		if !ok || now.T == b.arr || seenB[key] {
			continue
		}
		seenB[key] = true
		j := x.fresh("j", IntS)
		goal := Forall([]*Term{j}, Implies(And(Le(b.off, j), Lt(j, Add(b.off, b.cap))), Eq(Select(now.T, j), Select(b.arr, j))))
		x.addObl("frame", fmt.Sprintf("frame.borrowed.%d.%s", i+1, b.where), st, goal, x.C.Where)
	}
	if x.C.NoFrame {
		return
	}
	entry := x.entry
	me := x.entryEnv(entry.fork())
	var mods []modRange
	for _, m := range x.C.Modifies {
		me.where = m.Line
		mods = append(mods, x.modTarget(me, m.Expr)...)
	}
	var allocs []int
	for a := range entry.mem {
		allocs = append(allocs, a)
	}
	sort.Ints(allocs)
	for _, a := range allocs {
		ov := entry.mem[a]
		nv, ok := st.mem[a]
		if !ok {
			continue
		}
		x.frameCell(st, a, nil, ov, nv, mods)
	}
}

func (x *Exec) frameCell(st *State, a int, path []string, ov, nv Value, mods []modRange) {
	if sameValue(ov, nv) {
		return
	}
	ps := strings.Join(path, ".")
	switch o := ov.(type) {
	case ArrayV:
		n := nv.(ArrayV)
		var ranges []modRange
		for _, m := range mods {
			if m.alloc == a && m.path == ps {
				if m.whole {
					return
				}
				ranges = append(ranges, m)
			}
		}
		j := x.fresh("j", IntS)
		var in []*Term
		for _, r := range ranges {
			in = append(in, And(Le(r.lo, j), Lt(j, r.hi)))
		}
		// real memory of this allocation: the union of [off, off+cap) of the entry slices into it
		// (or [0, N) for arrays)
		var real []*Term
		if o.N >= 0 {
			real = append(real, And(Le(IntC(0), j), Lt(j, IntC(o.N))))
		}
		for _, v := range x.entry.vars {
			if sv, ok := v.(SliceV); ok && sv.Alloc == a && strings.Join(sv.path, ".") == ps {
				real = append(real, And(Le(sv.Off, j), Lt(j, Add(sv.Off, sv.Cap))))
			}
		}
		goal := Forall([]*Term{j}, Implies(And(Or(real...), Not(Or(in...))), Eq(Select(n.T, j), Select(o.T, j))))
		x.addObl("frame", fmt.Sprintf("frame.a%d%s", a, ps), st, goal, x.C.Where)
	case StructV:
		n := nv.(StructV)
		var ks []string
		for k := range o.F {
			ks = append(ks, k)
		}
		sort.Strings(ks)
		for _, k := range ks {
			x.frameCell(st, a, append(append([]string{}, path...), k), o.F[k], n.F[k], mods)
		}
	case Scalar:
		for _, m := range mods {
			if m.alloc == a && m.path == ps && m.whole {
				return
			}
		}
		n := nv.(Scalar)
		x.addObl("frame", fmt.Sprintf("frame.a%d%s", a, ps), st, Eq(o.T, n.T), x.C.Where)
	default:
		for _, m := range mods {
			if m.alloc == a && strings.HasPrefix(ps, m.path) && m.whole {
				return
			}
		}
		x.addObl("frame", fmt.Sprintf("frame.a%d%s", a, ps), st, FalseT, x.C.Where)
	}
}

func (x *Exec) modTarget(me *Env, t ast.Expr) []modRange {
	switch n := t.(type) {
	case *ast.SliceExpr:
		base := me.expr(n.X)
		if p, ok := base.(PtrV); ok {
			arr := navigate(x.memCell(me.st, p.Alloc), p.Path).(ArrayV)
			base = SliceV{Alloc: p.Alloc, path: p.Path, Off: IntC(0), Len: IntC(arr.N), Cap: IntC(arr.N), Elem: arr.Elem, Nil: FalseT}
		}
		s, ok := base.(SliceV)
		if !ok {
			unsupported("%s: modifies target %T", me.where, base)
		}
		lo, hi := IntC(0), s.Len
		if n.Low != nil {
			lo = me.toIntTerm(me.expr(n.Low))
		}
		if n.High != nil {
			hi = me.toIntTerm(me.expr(n.High))
		}
		return []modRange{{alloc: s.Alloc, path: strings.Join(s.path, "."), lo: Add(s.Off, lo), hi: Add(s.Off, hi)}}
	case *ast.StarExpr:
		p, ok := me.expr(n.X).(PtrV)
		if !ok {
			unsupported("%s: modifies *%s", me.where, exprText(n.X))
		}
		return []modRange{{alloc: p.Alloc, path: strings.Join(p.Path, "."), whole: true}}
	case *ast.SelectorExpr:
		p, ok := me.expr(n.X).(PtrV)
		if !ok {
			unsupported("%s: modifies %s", me.where, exprText(n))
		}
		return []modRange{{alloc: p.Alloc, path: strings.Join(append(append([]string{}, p.Path...), n.Sel.Name), "."), whole: true}}
	}
	v := me.expr(t)
	switch s := v.(type) {
	case SliceV:
		return []modRange{{alloc: s.Alloc, path: strings.Join(s.path, "."), lo: s.Off, hi: Add(s.Off, s.Len)}}
	case PtrV:
		return []modRange{{alloc: s.Alloc, path: strings.Join(s.Path, "."), whole: true}}
	}
	unsupported("%s: modifies target %T", me.where, v)
	return nil
}

// ---------------------------------------------------------------- lemmas

func (u *Universe) verifyLemma(l *Lemma) (res *FuncResult) {
	name := "lemma." + shortPkg(l.PkgPath) + "." + l.Name
	res = &FuncResult{Name: name, Lemma: l}
	defer func() {
		if r := recover(); r != nil {
			if ue, ok := r.(*UnsupportedError); ok {
				res.Unsupported = ue.Msg
				return
			}
			res.Unsupported = fmt.Sprintf("internal error: %v\n%s", r, debug.Stack())
		}
	}()
	pkg := u.Pkgs[l.PkgPath]
	x := u.newExec(pkg, name, reprFrom(l.ReprBV))
	x.frames = []*frame{{pkg: pkg, fn: &ast.FuncDecl{Name: ast.NewIdent(l.Name), Type: &ast.FuncType{}}, name: name}}
	st := newState()
	e := &Env{x: x, st: st, pkg: contractPkgView(pkg), names: map[string]Value{}, contract: true, where: l.Where}
	for _, p := range l.Params {
		t, err := u.resolveType(pkg, p.Type)
		if err != nil {
			unsupported("%s: %v", l.Where, err)
		}
		var v Value
		if isMathInt(t) {
			v = Scalar{x.fresh(p.Name, IntS), t}
		} else {
			v = x.havoc(e, t, p.Name)
		}
		e.names[p.Name] = v
		x.recordInput(p.Name, v, t, st)
	}
	if l.Theory != "" && !l.Axiom {
		x.axiomsOnly = true
		x.assumeTheories(st, strings.Fields(l.Theory))
		x.axiomsOnly = false
	}
	for _, r := range l.Requires {
		e.where = r.Line
		st.assume(e.boolTerm(e.expr(r.Expr)))
	}
	if len(l.Uses) > 0 {
		x.C = &Contract{ReprBV: l.ReprBV}
		x.applyUses(e, l.Uses, "")
		x.C = nil
	}
	if l.Induct != "" {
		// induction on a natural-number parameter: the statement may be assumed at n-1
		nv, ok := e.names[l.Induct].(Scalar)
		if !ok {
			unsupported("%s: induct %s: no such integer parameter", l.Where, l.Induct)
		}
		x.addObl("lemma", "induct.nonneg", st, Le(IntC(0), e.toIntTerm(nv)), l.Where)
		ihm := map[string]Value{l.Induct: Scalar{Sub(e.toIntTerm(nv), IntC(1)), nv.Typ}}
		for _, sb := range l.IHSubst {
			e.where = sb.Line
			var pt types.Type
			for _, p := range l.Params {
				if p.Name == sb.Name {
					if t, err := u.resolveType(pkg, p.Type); err == nil {
						pt = t
					}
				}
			}
			if pt == nil {
				unsupported("%s: ihsubst %s: no such parameter", sb.Line, sb.Name)
			}
			ihm[sb.Name] = e.coerceSpecArg(e.expr(sb.Expr), pt)
		}
		ih := e.sub(ihm)
		var hyp, concl []*Term
		hyp = append(hyp, Le(IntC(1), e.toIntTerm(nv)))
		for _, r := range l.Requires {
			ih.where = r.Line
			hyp = append(hyp, ih.boolTerm(ih.expr(r.Expr)))
		}
		for _, en := range l.Ensures {
			ih.where = en.Line
			concl = append(concl, ih.boolTerm(ih.expr(en.Expr)))
		}
		st.assume(Implies(And(hyp...), And(concl...)))
	}
	x.Obls = append(x.Obls, &Obl{Name: "cover." + name + ".pre", Kind: "cover", PC: append([]*Term{}, st.pc...), Goal: FalseT, Cover: true, Func: name, Where: l.Where})
	for i, en := range l.Ensures {
		e.where = en.Line
		t := e.boolTerm(e.expr(en.Expr))
		x.addObl("lemma", fmt.Sprintf("ensures.%d", i+1), st, t, en.Line)
		st.assume(t) // later conclusions may use earlier ones
	}
	res.Obls = x.finishObls()
	res.Trivial = x.trivial
	return res
}

// propagateConsts: equalities `symbol = constant` among the assumptions (e.g. a required length)
// are substituted into the state so that constant-trip loops can be unrolled.
func (x *Exec) propagateConsts(st *State) {
	m := map[string]*Term{}
	for _, p := range st.pc {
		if p.Op == "=" && len(p.Args) == 2 {
			a, b := p.Args[0], p.Args[1]
			if a.Op == "var" && b.Op == "const" {
				m[a.Name] = b
			} else if b.Op == "var" && a.Op == "const" {
				m[b.Name] = a
			}
		}
	}
	if len(m) == 0 {
		return
	}
	for k, v := range st.vars {
		st.vars[k] = substValue(v, m)
	}
	for k, v := range st.mem {
		st.mem[k] = substValue(v, m)
	}
}

func substValue(v Value, m map[string]*Term) Value {
	switch c := v.(type) {
	case Scalar:
		return Scalar{subst(c.T, m), c.Typ}
	case SliceV:
		c.Off, c.Len, c.Cap, c.Nil = subst(c.Off, m), subst(c.Len, m), subst(c.Cap, m), subst(c.Nil, m)
		return c
	case ArrayV:
		c.T = subst(c.T, m)
		return c
	case StructV:
		f := map[string]Value{}
		for k, w := range c.F {
			f[k] = substValue(w, m)
		}
		return StructV{f, c.Typ}
	}
	return v
}

// assumeTheories adds the axioms of the named theories as universally quantified assumptions.
func (x *Exec) assumeTheories(st *State, theories []string) {
	for _, th := range theories {
		found := false
		for _, l := range x.U.Lemmas {
			if !hasName(strings.Fields(l.Theory), th) || (x.axiomsOnly && !l.Axiom) {
				continue
			}
			found = true
			lpkg := x.U.Pkgs[l.PkgPath]
			names := map[string]Value{}
			var bound []*Term
			var hyp, concl []*Term
			e := &Env{x: x, st: st, pkg: contractPkgView(lpkg), names: names, contract: true, where: l.Where}
			for _, p := range l.Params {
				t, err := x.U.resolveType(lpkg, p.Type)
				if err != nil {
					unsupported("%s: %v", l.Where, err)
				}
				if at, ok := t.Underlying().(*types.Array); ok && at.Len() > 0 && at.Len() <= 64 {
					es := e.R().sortOf(at.Elem())
					arr := ConstArr(e.zeroElem(at.Elem()))
					for i := int64(0); i < at.Len(); i++ {
						v := x.fresh(fmt.Sprintf("%s%d", p.Name, i), es)
						bound = append(bound, v)
						hyp = append(hyp, e.R().rangeOf(v, at.Elem()))
						arr = Store(arr, IntC(i), v)
					}
					names[p.Name] = ArrayV{T: arr, N: at.Len(), Elem: at.Elem(), Typ: t}
					continue
				}
				s := e.R().sortOf(t)
				if isMathInt(t) {
					s = IntS
				}
				if s == nil {
					unsupported("%s: axiom parameter %s of type %s cannot be quantified", l.Where, p.Name, t)
				}
				v := x.fresh(p.Name, s)
				bound = append(bound, v)
				hyp = append(hyp, e.R().rangeOf(v, t))
				names[p.Name] = Scalar{v, t}
			}
			for _, r := range l.Requires {
				e.where = r.Line
				hyp = append(hyp, e.boolTerm(e.expr(r.Expr)))
			}
			for _, en := range l.Ensures {
				e.where = en.Line
				concl = append(concl, e.boolTerm(e.expr(en.Expr)))
			}
			st.assume(Forall(bound, Implies(And(hyp...), And(concl...))))
			if l.Axiom {
				x.trusted["axiom "+shortPkg(l.PkgPath)+"."+l.Name+" (theory "+th+")"] = true
			}
		}
		if !found {
			unsupported("no axioms are declared for theory %s", th)
		}
	}
}

// specConstsNow: values of the `specialize NAME = ...` constants for the verification in progress.
var specConstsNow map[string]int64

// alphaAssumed: the goal is literally one of the assumptions (for quantified goals: up to the names of
// the bound variables).
func alphaAssumed(o *Obl) bool {
	g := o.Goal
	for _, p := range o.PC {
		if p == g {
			return true
		}
		if g.Op == "forall" && p.Op == "forall" && len(p.Bound) == len(g.Bound) {
			m := map[string]*Term{}
			ok := true
			for i, b := range p.Bound {
				if b.S != g.Bound[i].S {
					ok = false
				}
				m[b.Name] = g.Bound[i]
			}
			if ok && subst(p.Args[0], m) == g.Args[0] {
				return true
			}
		}
	}
	return false
}

// verifyPrefix: statements are executed in order until one is outside the supported subset; the check
// clauses are proved on every state that reaches that point (or a return before it).
func (x *Exec) verifyPrefix(st *State, fd *ast.FuncDecl, name string) {
	cur := []*State{st}
	runChecks := func(s *State) {
		ue := x.localEnv(s)
		for i, ck := range x.C.Checks {
			func() {
				defer func() {
					if r := recover(); r != nil {
						if ue2, ok := r.(*UnsupportedError); ok && strings.Contains(ue2.Msg, "unknown identifier") {
							return
						}
						panic(r)
					}
				}()
				ue.where = ck.Line
				t := ue.boolTerm(ue.expr(ck.Expr))
				x.addObl("assert", fmt.Sprintf("check.%d", i+1), s, t, ck.Line)
				s.assume(t)
			}()
		}
	}
	cutAt := ""
	for _, s := range fd.Body.List {
		var next []*State
		stop := false
		for _, c := range cur {
			var outs []outcome
			func() {
				defer func() {
					if r := recover(); r != nil {
						if ue, ok := r.(*UnsupportedError); ok {
							stop = true
							cutAt = x.pos(s) + ": " + ue.Msg
							return
						}
						panic(r)
					}
				}()
				outs = x.execStmt(c.fork(), s)
			}()
			if stop {
				break
			}
			for _, o := range outs {
				switch o.kind {
				case oNormal:
					next = append(next, o.st)
				case oReturn:
					// a return before the cut point: the postconditions describe when that is allowed
					x.checkReturn(o.st)
				}
			}
		}
		if stop {
			break
		}
		cur = next
		if len(cur) > 1 {
			if m := mergeStates(s0(st, cur), cur); m != nil {
				cur = []*State{m}
			}
		}
	}
	if cutAt == "" {
		cutAt = "end of the body"
	}
	x.trusted["prefix contract of "+name+": only the statements before "+cutAt+" are analysed; goroutine launches before that point are skipped and the scalar variables they mention are unknown afterwards"] = true
	for _, s := range cur {
		runChecks(s)
	}
}
