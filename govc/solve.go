package main

// SMT-LIB emission and the solver portfolio (z3 4.8.12, z3 5.1.0 as z3-new, cvc5).

import (
	"sync/atomic"
	"bytes"
	"context"
	"fmt"
	"os"
	"os/exec"
	"path/filepath"
	"regexp"
	"strings"
	"sync"
	"time"
)

// realClean: in field-congruence mode only pure arithmetic assumptions are kept (arrays and
// quantified range facts are irrelevant there and are not well-sorted over the reals).
func realClean(pc []*Term) []*Term {
	var out []*Term
	for _, p := range pc {
		bad := false
		seen := map[*Term]bool{}
		var walk func(t *Term)
		walk = func(t *Term) {
			if seen[t] || bad {
				return
			}
			seen[t] = true
			switch t.Op {
			case "select", "store", "forall", "exists", "constarr", "div", "mod", "bv2nat", "int2bv":
				bad = true
				return
			}
			if t.S.K == KArr || t.S.K == KBV {
				bad = true
				return
			}
			for _, a := range t.Args {
				walk(a)
			}
		}
		walk(p)
		if !bad {
			out = append(out, p)
		}
	}
	return out
}

func (o *Obl) smt(extraGet []string) string {
	if o.Real {
		c := *o
		c.Real = false
		c.PC = realClean(o.PC)
		c.realPrint = true
		return c.smtInner(extraGet)
	}
	return o.smtInner(extraGet)
}

func (o *Obl) smtInner(extraGet []string) string {
	var sb strings.Builder
	sb.WriteString("(set-option :produce-models true)\n(set-logic ALL)\n")
	sy := newSymbols()
	for _, p := range o.PC {
		sy.collect(p, nil)
	}
	sy.collect(o.Goal, nil)
	// uninterpreted symbols used inside definition bodies (parameters of the definitions are bound)
	for _, b := range o.DefBodies {
		pb := map[string]bool{}
		var mark func(t *Term)
		seen := map[*Term]bool{}
		mark = func(t *Term) {
			if seen[t] {
				return
			}
			seen[t] = true
			if t.Op == "var" && strings.Contains(t.Name, "$") {
				pb[t.Name] = true
			}
			if t.Op == "var" {
				sy.noteSort(t.S)
			}
			for _, a := range t.Args {
				mark(a)
			}
		}
		mark(b)
		sy.collect(b, pb)
	}
	defined := map[string]bool{}
	for _, n := range o.DefNames {
		defined[n] = true
	}
	sb.WriteString(sy.declsMode(defined, o.realPrint))
	sb.WriteString(o.Defs)
	sh := newSharer()
	sh.real = o.realPrint
	seen := map[*Term]bool{}
	for _, p := range o.PC {
		sh.collectBound(p, seen)
	}
	sh.collectBound(o.Goal, seen)
	for _, p := range o.PC {
		sh.visit(p)
	}
	if !o.Cover {
		sh.visit(o.Goal)
	}
	sh.assign()
	sh.defs(&sb)
	for _, p := range o.PC {
		sb.WriteString("(assert ")
		sh.write(p, &sb, false)
		sb.WriteString(")\n")
	}
	if !o.Cover {
		sb.WriteString("(assert (not ")
		sh.write(o.Goal, &sb, false)
		sb.WriteString("))\n")
	}
	for _, g := range o.ExtraAsserts {
		sb.WriteString("(assert " + g + ")\n")
	}
	sb.WriteString("(check-sat)\n")
	if len(extraGet) > 0 {
		sb.WriteString("(get-value (" + strings.Join(extraGet, " ") + "))\n")
	}
	return sb.String()
}

type solverSpec struct {
	name string
	argv func(file string, timeoutS int) []string
}

var solvers = []solverSpec{
	{"z3-4.8.12", func(f string, t int) []string { return []string{"/usr/bin/z3", fmt.Sprintf("-T:%d", t), f} }},
	{"z3-5.1.0", func(f string, t int) []string { return []string{"z3-new", fmt.Sprintf("-T:%d", t), f} }},
	{"cvc5-1.0.3", func(f string, t int) []string {
		return []string{"cvc5", fmt.Sprintf("--tlimit=%d", t*1000), "--produce-models", f}
	}},
}

type solveOut struct {
	status string
	solver string
	out    string
	dur    float64
}

func runSolver(ctx context.Context, sp solverSpec, file string, timeoutS int) solveOut {
	t0 := time.Now()
	cctx, cancel := context.WithTimeout(ctx, time.Duration(timeoutS+2)*time.Second)
	defer cancel()
	argv := sp.argv(file, timeoutS)
	cmd := exec.CommandContext(cctx, argv[0], argv[1:]...)
	var buf bytes.Buffer
	cmd.Stdout = &buf
	cmd.Stderr = &buf
	cmd.Run()
	out := buf.String()
	first := strings.TrimSpace(strings.SplitN(out, "\n", 2)[0])
	st := "unknown"
	switch first {
	case "sat", "unsat":
		st = first
	case "unknown":
		st = "unknown"
	case "timeout":
		st = "timeout"
	default:
		if strings.Contains(out, "timeout") || cctx.Err() != nil {
			st = "timeout"
		} else if strings.Contains(out, "error") || strings.Contains(out, "Error") {
			st = "error"
		}
	}
	return solveOut{status: st, solver: sp.name, out: out, dur: time.Since(t0).Seconds()}
}

// portfolio: quick first attempt with z3 4.8, then race the three solvers.
func portfolio(file string, timeoutS int, all bool) solveOut {
	return portfolioOpt(file, timeoutS, all, true)
}

// race: the three solvers at once, without the sequential first try
func race(file string, timeoutS int) solveOut { return portfolioOpt(file, timeoutS, false, false) }

func portfolioOpt(file string, timeoutS int, all bool, seqFirst bool) solveOut {
	ctx := context.Background()
	t0 := time.Now()
	if seqFirst {
		first := runSolver(ctx, solvers[0], file, min(2, timeoutS))
		if first.status == "sat" || first.status == "unsat" {
			if !all {
				return first
			}
		}
	}
	rctx, cancel := context.WithCancel(ctx)
	defer cancel()
	ch := make(chan solveOut, len(solvers))
	for _, sp := range solvers {
		sp := sp
		go func() { ch <- runSolver(rctx, sp, file, timeoutS) }()
	}
	var results []solveOut
	var definite *solveOut
	for range solvers {
		r := <-ch
		results = append(results, r)
		if r.status == "sat" || r.status == "unsat" {
			if definite == nil {
				rc := r
				definite = &rc
				if !all {
					cancel()
					break
				}
			} else if all && r.status != definite.status {
				return solveOut{status: "conflict", solver: definite.solver + " vs " + r.solver, out: definite.out + "\n---\n" + r.out, dur: time.Since(t0).Seconds()}
			}
		}
	}
	if definite != nil {
		definite.dur = time.Since(t0).Seconds()
		return *definite
	}
	// no definite answer: report the most informative
	best := results[0]
	for _, r := range results {
		if r.status == "unknown" && best.status != "unknown" {
			best = r
		}
	}
	best.dur = time.Since(t0).Seconds()
	var outs []string
	for _, r := range results {
		outs = append(outs, fmt.Sprintf("[%s] %s", r.solver, strings.TrimSpace(r.out)))
	}
	best.out = strings.Join(outs, "\n")
	return best
}

var fileSafe = regexp.MustCompile(`[^A-Za-z0-9_.#@-]`)

// maxFailPerFunc: once this many obligations of one function have failed, its remaining obligations
// are not attempted (they are reported as skipped and count as failed): a broken function otherwise
// costs a full timeout for each of its hundreds of obligations.
const maxFailPerFunc = 6

func dischargeAll(obls []*Obl, dir string, timeoutS int, all bool, workers int) {
	os.MkdirAll(dir, 0o755)
	var wg sync.WaitGroup
	var mu sync.Mutex
	fails := map[string]int{}
	sem := make(chan struct{}, workers)
	for _, o := range obls {
		o := o
		wg.Add(1)
		sem <- struct{}{}
		go func() {
			defer wg.Done()
			defer func() { <-sem }()
			mu.Lock()
			skip := !o.Cover && fails[o.Func] >= maxFailPerFunc
			mu.Unlock()
			if skip {
				o.Status, o.Solver = "skipped", "not attempted"
				o.Model = fmt.Sprintf("not attempted: %d obligations of %s had already failed", maxFailPerFunc, o.Func)
				return
			}
			mu.Lock()
			budget := timeoutS
			if fails[o.Func] > 0 && budget > 15 {
				budget = 15 // the function has already failed an obligation: less patience for the rest
			}
			mu.Unlock()
			dischargeOne(o, dir, budget, all)
			if !o.Cover && o.Status != "unsat" {
				mu.Lock()
				fails[o.Func]++
				mu.Unlock()
			}
		}()
	}
	wg.Wait()
}

func dischargeOne(o *Obl, dir string, timeoutS int, all bool) {
	if o.Status == "unsat" && strings.HasPrefix(o.Solver, "syntactic") {
		return
	}
	dischargeOne1(o, dir, timeoutS, all)
	if all && !o.Cover && o.Status == "unsat" && o.provedFile != "" {
		// thorough tier: the proving query is put to the other solvers as well; an answer `sat` from any
		// of them is a conflict and the obligation counts as failed
		agree := 0
		for _, sp := range solvers {
			if strings.HasPrefix(o.Solver, sp.name) {
				continue
			}
			r := runSolver(context.Background(), sp, o.provedFile, 10)
			switch r.status {
			case "unsat":
				agree++
			case "sat":
				o.Status = "conflict"
				o.Solver += " vs " + sp.name
				o.Model = r.out
				return
			}
		}
		o.Solver += fmt.Sprintf(" (+%d agreeing)", agree)
	}
}

var oblFileSeq int64

func dischargeOne1(o *Obl, dir string, timeoutS int, all bool) {
	// unique per obligation: two packages may hold functions of the same qualified name (the two copies of
	// the secp256k1 file), and obligations are discharged in parallel
	fn := filepath.Join(dir, fmt.Sprintf("%s.%d.smt2", fileSafe.ReplaceAllString(o.Name, "_"), atomic.AddInt64(&oblFileSeq, 1)))
	o.File = fn
	txt := o.smt(nil)
	if len(txt) > 8<<20 {
		o.Status = "error"
		o.Model = fmt.Sprintf("VC too large (%d bytes)", len(txt))
		return
	}
	os.WriteFile(fn, []byte(txt), 0o644)
	if o.Cover {
		// vacuity guard: unsat means the assumptions are contradictory
		r := runSolver(context.Background(), solvers[0], fn, min(timeoutS, 5))
		if r.status != "sat" && r.status != "unsat" {
			r2 := runSolver(context.Background(), solvers[2], fn, min(timeoutS, 5))
			if r2.status == "sat" || r2.status == "unsat" {
				r = r2
			}
		}
		o.Status, o.Solver, o.Time = r.status, r.solver, r.dur
		return
	}
	// first attempt: cone-of-influence slice; recursive spec functions that the goal does not mention
	// stay uninterpreted (fewer facts: can only make the proof fail, never succeed wrongly)
	// attempt 0: the full VC with the fastest-starting solver and a short limit (the common case)
	if r0 := runSolver(context.Background(), solvers[0], fn, 1); r0.status == "unsat" || r0.status == "sat" {
		o.Status, o.Solver, o.Time, o.Model = r0.status, r0.solver, r0.dur, r0.out
		if r0.status == "unsat" {
			o.provedFile = fn
			return
		}
		// a model: confirm with the portfolio on the full VC below (another solver may refute it
		// only if the first one is wrong; keep the answer unless contradicted)
		return
	} else {
		o.Time += r0.dur
	}
	// attempt 3: recursive spec functions left uninterpreted, with their defining equation
	// instantiated at the applications that occur in the obligation (two rounds). Instances of a
	// definition are true, so a proof from them is a proof.
	if uo := unfoldOnce(o, 2); uo != nil {
		ufn := strings.TrimSuffix(fn, ".smt2") + ".unfold.smt2"
		os.WriteFile(ufn, []byte(uo.smt(nil)), 0o644)
		r := race(ufn, min(8, timeoutS))
		if r.status == "unsat" {
			o.Status, o.Solver, o.Time, o.Model = r.status, r.solver+" (recursive definitions unfolded at their applications)", r.dur, r.out
			o.provedFile = ufn
			return
		}
		o.Time += r.dur
	}
	// attempt 1: only the small facts of the path condition (bounds, equalities, short
	// implications); giant assumptions such as a callee's postcondition over a 243-ary digest term
	// are left out. Dropping assumptions can only lose proofs.
	if small := smallFacts(o.PC, 400); len(small) < len(o.PC) {
		so := *o
		so.PC = small
		sfn := strings.TrimSuffix(fn, ".smt2") + ".small.smt2"
		os.WriteFile(sfn, []byte(so.smt(nil)), 0o644)
		r := race(sfn, min(3, timeoutS))
		if r.status == "unsat" {
			o.Status, o.Solver, o.Time, o.Model = r.status, r.solver+" (small-facts VC)", r.dur, r.out
			o.provedFile = sfn
			return
		}
		o.Time += r.dur
	}
	// attempt 2: applications with many arguments (digests of whole blocks) generalised to fresh
	// constants, the same constant for the same application. If the generalised obligation is valid
	// so is the original one.
	if ao := abstractBigApps(o); ao != nil {
		afn := strings.TrimSuffix(fn, ".smt2") + ".abs.smt2"
		os.WriteFile(afn, []byte(ao.smt(nil)), 0o644)
		r := race(afn, min(5, timeoutS))
		if r.status == "unsat" {
			o.Status, o.Solver, o.Time, o.Model = r.status, r.solver+" (large applications generalised)", r.dur, r.out
			o.provedFile = afn
			return
		}
		o.Time += r.dur
	}
	// definitions needed by the goal (transitively through definition bodies)
	defLines := strings.Split(strings.TrimSpace(o.Defs), "\n")
	defText := map[string]string{}
	for _, l := range defLines {
		for _, dn := range o.DefNames {
			if strings.HasPrefix(l, "(define-fun-rec "+sanitize(dn)+" ") || strings.HasPrefix(l, "(define-fun "+sanitize(dn)+" ") {
				defText[dn] = l
			}
		}
	}
	needed := map[string]bool{}
	for _, dn := range o.DefNames {
		if termMentionsApp(o.Goal, dn) {
			needed[dn] = true
		}
	}
	for changed := true; changed; {
		changed = false
		for dn := range needed {
			for _, other := range o.DefNames {
				if !needed[other] && strings.Contains(defText[dn], sanitize(other)) {
					needed[other] = true
					changed = true
				}
			}
		}
	}
	dropSome := len(needed) < len(o.DefNames)
	sl := slicePC(o.PC, o.Goal, 3)
	if sl == nil && dropSome {
		sl = o.PC
	}
	if sl != nil {
		so := *o
		so.PC = sl
		if dropSome {
			var kd []string
			var kn []string
			for _, dn := range o.DefNames {
				if needed[dn] {
					kd = append(kd, defText[dn])
					kn = append(kn, dn)
				}
			}
			so.Defs, so.DefNames = strings.Join(kd, "\n")+"\n", kn
			var keep []*Term
			for _, p := range sl {
				m := false
				for _, dn := range o.DefNames {
					if !needed[dn] && termMentionsApp(p, dn) {
						m = true
						break
					}
				}
				if !m {
					keep = append(keep, p)
				}
			}
			so.PC = keep
		}
		sfn := strings.TrimSuffix(fn, ".smt2") + ".sliced.smt2"
		os.WriteFile(sfn, []byte(so.smt(nil)), 0o644)
		r := race(sfn, min(5, timeoutS))
		if r.status == "unsat" {
			o.Status, o.Solver, o.Time, o.Model = r.status, r.solver+" (sliced VC)", r.dur, r.out
			o.provedFile = sfn
			return
		}
		o.Time += r.dur
	}
	r := portfolio(fn, timeoutS, false)
	o.Status, o.Solver, o.Model = r.status, r.solver, r.out
	o.Time += r.dur
	if r.status == "unsat" {
		o.provedFile = fn
	}
}

// smallFacts: the assumptions whose term DAG has at most limit nodes.
func smallFacts(pc []*Term, limit int) []*Term {
	var out []*Term
	for _, p := range pc {
		seen := map[*Term]bool{}
		n := 0
		var walk func(t *Term)
		walk = func(t *Term) {
			if seen[t] || n > limit {
				return
			}
			seen[t] = true
			n++
			for _, a := range t.Args {
				walk(a)
			}
		}
		walk(p)
		if n <= limit {
			out = append(out, p)
		}
	}
	return out
}

func abstractBigApps(o *Obl) *Obl {
	rep := map[*Term]*Term{}
	memo := map[*Term]*Term{}
	var rw func(t *Term) *Term
	rw = func(t *Term) *Term {
		if r, ok := memo[t]; ok {
			return r
		}
		var res *Term
		switch {
		case t.Op == "app" && len(t.Args) >= 32:
			v, ok := rep[t]
			if !ok {
				v = Var(fmt.Sprintf("gen!%d", len(rep)+1), t.S)
				rep[t] = v
			}
			res = v
		case len(t.Args) == 0 || t.Op == "forall" || t.Op == "exists":
			res = t
		default:
			args := make([]*Term, len(t.Args))
			ch := false
			for i, a := range t.Args {
				args[i] = rw(a)
				if args[i] != a {
					ch = true
				}
			}
			res = t
			if ch {
				res = rebuild(t, args)
			}
		}
		memo[t] = res
		return res
	}
	c := *o
	c.PC = make([]*Term, len(o.PC))
	for i, p := range o.PC {
		c.PC[i] = rw(p)
	}
	c.Goal = rw(o.Goal)
	if len(rep) == 0 {
		return nil
	}
	return &c
}

func unfoldOnce(o *Obl, rounds int) *Obl {
	if len(o.RecDefs) == 0 {
		return nil
	}
	c := *o
	c.PC = append([]*Term(nil), o.PC...)
	done := map[*Term]bool{}
	frontier := append([]*Term{o.Goal}, o.PC...)
	any := false
	for r := 0; r < rounds; r++ {
		var apps []*Term
		seen := map[*Term]bool{}
		var walk func(t *Term)
		walk = func(t *Term) {
			if seen[t] {
				return
			}
			seen[t] = true
			if t.Op == "forall" || t.Op == "exists" {
				return // applications under a binder are not ground
			}
			if t.Op == "app" {
				if _, ok := o.RecDefs[t.Name]; ok && !done[t] {
					done[t] = true
					apps = append(apps, t)
				}
			}
			for _, a := range t.Args {
				walk(a)
			}
		}
		for _, t := range frontier {
			walk(t)
		}
		frontier = nil
		for _, a := range apps {
			d := o.RecDefs[a.Name]
			if len(d.params) != len(a.Args) {
				continue
			}
			m := map[string]*Term{}
			for i, p := range d.params {
				m[p.Name] = a.Args[i]
			}
			inst := Eq(a, subst(d.body, m))
			c.PC = append(c.PC, inst)
			frontier = append(frontier, inst)
			any = true
		}
	}
	if !any {
		return nil
	}
	// keep only the non-recursive definitions
	var kd, kn []string
	var kb []*Term
	lines := strings.Split(strings.TrimSpace(o.Defs), "\n")
	for i, dn := range o.DefNames {
		if _, rec := o.RecDefs[dn]; rec {
			continue
		}
		for _, l := range lines {
			if strings.HasPrefix(l, "(define-fun "+sanitize(dn)+" ") {
				kd = append(kd, l)
			}
		}
		kn = append(kn, dn)
		_ = i
	}
	for _, dn := range kn {
		_ = dn
	}
	// bodies of the kept definitions (for symbol collection)
	for i, dn := range o.DefNames {
		if _, rec := o.RecDefs[dn]; !rec && i < len(o.DefBodies) {
			kb = append(kb, o.DefBodies[i])
		}
	}
	c.Defs = strings.Join(kd, "\n") + "\n"
	c.DefNames = kn
	c.DefBodies = kb
	c.RecDefs = nil
	return &c
}
