package main

// Library functions and types with built-in models, globals, error values, strings.

import (
	"strconv"
	"fmt"
	"go/ast"
	"go/constant"
	"go/token"
	"go/types"
	"strings"
)

var constantOne = constant.MakeInt64(1)

// SeqV: a Go slice whose elements are not scalars (slice of slices, of interfaces ...),
// supported only with a statically known element list.
type SeqV struct {
	Elems []Value
	Len   *Term
	Typ   types.Type
	// symbolic sequences (result of strings.Split): element i is At(i), Elems is empty; SymID names the sequence
	At    func(i *Term) Value
	SymID *Term
}

func (x *Exec) havocSliceOf(e *Env, t types.Type, u *types.Slice, base string) Value {
	// `seqlen NAME N` in the contract: the parameter is a slice of exactly N (a constant) elements
	if n, ok := x.seqLens[base]; ok {
		sv := SeqV{Len: IntC(int64(n)), Typ: t}
		for i := 0; i < n; i++ {
			sv.Elems = append(sv.Elems, x.havoc(e, u.Elem(), fmt.Sprintf("%s[%d]", base, i)))
		}
		return sv
	}
	if b, ok := u.Elem().Underlying().(*types.Basic); ok && b.Kind() == types.String {
		// an arbitrary sequence of strings: segments of one arbitrary byte sequence
		a := x.alloc()
		arr := x.fresh(base+".bytes", ArrS(e.R().sortOf(byteT)))
		e.st.mem[a] = ArrayV{T: arr, N: -1, Elem: byteT}
		e.st.assume(x.elemRangeAxiom(e, arr, byteT))
		cnt := x.fresh(base+".n", IntS)
		stA := x.fresh(base+".st", ArrS(IntS))
		enA := x.fresh(base+".en", ArrS(IntS))
		i := x.fresh("i", IntS)
		e.st.assume(Le(IntC(0), cnt))
		e.st.assume(Forall([]*Term{i}, And(Le(IntC(0), Select(stA, i)), Le(Select(stA, i), Select(enA, i)))))
		return SeqV{Len: cnt, Typ: t, SymID: x.fresh(base+".id", IntS), At: func(ix *Term) Value {
			ln := Sub(Select(enA, ix), Select(stA, ix))
			return SliceV{Alloc: a, Off: Select(stA, ix), Len: ln, Cap: ln, Elem: byteT, IsString: true, Nil: FalseT, Typ: u.Elem()}
		}}
	}
	unsupported("symbolic slice of %s (give its length with a seqlen clause)", u.Elem())
	return nil
}

func (x *Exec) makeSliceOf(e *Env, t types.Type, u *types.Slice, ln, cp *Term) Value {
	n, ok := ln.Int64()
	if !ok {
		n, ok = x.simplifyWithPC(e.st, ln).Int64()
	}
	if !ok {
		unsupported("make of slice of %s with symbolic length", u.Elem())
	}
	var el []Value
	for i := int64(0); i < n; i++ {
		el = append(el, e.zeroValue(u.Elem(), true))
	}
	return SeqV{Elems: el, Len: ln, Typ: t}
}

func (x *Exec) appendSeq(e *Env, s SeqV, n *ast.CallExpr) Value {
	el := append([]Value{}, s.Elems...)
	for _, a := range n.Args[1:] {
		el = append(el, e.expr(a))
	}
	return SeqV{Elems: el, Len: IntC(int64(len(el))), Typ: s.Typ}
}

func (x *Exec) seqStore(e *Env, base ast.Expr, s SeqV, iv Value, v Value) {
	i, ok := e.toIntTerm(iv).Int64()
	if !ok || i < 0 || i >= int64(len(s.Elems)) {
		unsupported("%s: store into a slice of non-scalars at a symbolic index", e.where)
	}
	el := append([]Value{}, s.Elems...)
	el[i] = v
	p := x.placeOf(e, base)
	x.writePlace(e, p, SeqV{Elems: el, Len: s.Len, Typ: s.Typ})
}

func (x *Exec) rangeSeq(st *State, n *ast.RangeStmt, s SeqV, hidden *types.Var) []outcome {
	keyIsCounter := false
	if kid, ok := n.Key.(*ast.Ident); ok && n.Tok == token.DEFINE && kid.Name != "_" {
		if ko, ok := x.top().pkg.TypesInfo.Defs[kid].(*types.Var); ok && ko == hidden {
			keyIsCounter = true
		}
	}
	ls := &loopSpec{id: x.loopID(n), stmt: n, body: n.Body, counter: hidden}
	ls.cond = func(c *State) *Term {
		h := c.vars[hidden].(Scalar)
		return Lt(h.T, s.Len)
	}
	ls.pre = func(c *State) {
		e := x.env(c)
		h := c.vars[hidden].(Scalar)
		if n.Key != nil && !keyIsCounter {
			x.assignTo(e, n.Key, Scalar{h.T, intT}, n.Tok == token.DEFINE)
		}
		if n.Value != nil {
			x.assignTo(e, n.Value, e.indexValue(s, Scalar{h.T, intT}, n), n.Tok == token.DEFINE)
		}
	}
	ls.post = func(c *State) []outcome {
		h := c.vars[hidden].(Scalar)
		c.vars[hidden] = Scalar{Add(h.T, IntC(1)), intT}
		return []outcome{{kind: oNormal, st: c}}
	}
	outs := x.runLoop(st, ls)
	for _, o := range outs {
		delete(o.st.vars, hidden)
	}
	return outs
}

func (x *Exec) havocSpecialStruct(e *Env, t types.Type, base string) (Value, bool) { return nil, false }
func (x *Exec) havocSpecialPtr(e *Env, t types.Type, u *types.Pointer, base string) (Value, bool) {
	return nil, false
}
func (x *Exec) newSpecial(e *Env, t types.Type) (Value, bool) { return nil, false }

func (x *Exec) nativeMethod(e *Env, callee *types.Func, recv ast.Expr, n *ast.CallExpr) (Value, bool) {
	pp, key := funcKey(callee)
	if pp == "math/big" && strings.HasPrefix(key, "Int.") {
		if bigPtrType == nil {
			if rt, ok := callee.Type().(*types.Signature).Recv().Type().(*types.Pointer); ok {
				bigPtrType = rt
			}
		}
		return x.bigMethod(e, callee, recv, n)
	}
	if pp == "encoding/binary" && (strings.HasPrefix(key, "littleEndian.") || strings.HasPrefix(key, "bigEndian.")) {
		if v, ok := x.binaryMethod(e, key, n); ok {
			return v, true
		}
	}
	if pp == "hash" || pp == "io" || strings.HasPrefix(key, "Hash.") || strings.HasPrefix(key, "Writer.") || strings.HasPrefix(key, "SpongeFunction.") {
		if rv, ok := x.peekValue(e, recv); ok {
			if h, isHash := rv.(HashV); isHash {
				return x.hashMethod(e, recv, h, callee.Name(), n)
			}
		}
	}
	if pp == "regexp" && key == "Regexp.FindStringSubmatch" {
		if re, ok := e.expr(recv).(RegexV); ok {
			return x.regexFindStringSubmatch(e, re, n)
		}
	}
	switch pp + "." + key {
	case "crypto.Hash.New":
		fv, ok := e.expr(recv).(Scalar)
		if !ok {
			unsupported("crypto.Hash.New on %T", e.expr(recv))
		}
		if c, ok := x.simplifyWithPC(e.st, e.toIntTerm(fv)).Int64(); ok {
			// a registered standard hash function given as a constant
			if nm, ok := map[int64]string{3: "sha1", 5: "sha256", 7: "sha512", 9: "ripemd160", 17: "blake2b256"}[c]; ok {
				return x.newHash(nm, nil), true
			}
		}
		return x.newHash("cryptohash", fv.T), true
	case "crypto.Hash.Size":
		fv := e.expr(recv).(Scalar)
		return Scalar{x.simplifyWithPC(e.st, App("hashsize", IntS, fv.T)), intT}, true
	case "strings.Builder.Grow":
		e.expr(n.Args[0])
		return TupleV{}, true
	case "strings.Builder.WriteByte":
		b := x.builderGet(e, recv)
		v := e.assignable(e.expr(n.Args[0]), byteT).(Scalar)
		arr := x.memArr(e.st, b.Alloc, nil)
		x.setMem(e.st, b.Alloc, nil, ArrayV{T: Store(arr.T, b.Len, v.T), N: -1, Elem: byteT})
		b.Len = Add(b.Len, IntC(1))
		x.builderSet(e, recv, b)
		return ErrV{Nil: TrueT, Kind: IntC(0), Type: IntC(0), Off: IntC(0)}, true
	case "strings.Builder.WriteString":
		b := x.builderGet(e, recv)
		s := e.expr(n.Args[0]).(SliceV)
		dst := SliceV{Alloc: b.Alloc, Off: b.Len, Len: s.Len, Cap: s.Len, Elem: byteT}
		x.copyRange(e, dst, s, s.Len)
		b.Len = Add(b.Len, s.Len)
		x.builderSet(e, recv, b)
		return TupleV{Scalar{s.Len, intT}, ErrV{Nil: TrueT, Kind: IntC(0), Type: IntC(0), Off: IntC(0)}}, true
	case "strings.Builder.String":
		b := x.builderGet(e, recv)
		a := x.alloc()
		e.st.mem[a] = x.memArr(e.st, b.Alloc, nil)
		return SliceV{Alloc: a, Off: IntC(0), Len: b.Len, Cap: b.Len, Elem: byteT, IsString: true, Nil: FalseT, Typ: types.Typ[types.String]}, true
	case "strings.Builder.Len":
		b := x.builderGet(e, recv)
		return Scalar{b.Len, intT}, true
	}
	return nil, false
}

// strings.Builder is modelled as a byte slice starting at offset 0 of its own allocation.
func (x *Exec) builderGet(e *Env, recv ast.Expr) SliceV {
	p := x.placeOf(e, recv)
	cur := x.readPlace(e, p)
	if s, ok := cur.(SliceV); ok {
		return s
	}
	a := x.alloc()
	e.st.mem[a] = ArrayV{T: ConstArr(e.zeroElem(byteT)), N: -1, Elem: byteT}
	return SliceV{Alloc: a, Off: IntC(0), Len: IntC(0), Cap: IntC(0), Elem: byteT, Nil: FalseT}
}

func (x *Exec) builderSet(e *Env, recv ast.Expr, b SliceV) {
	p := x.placeOf(e, recv)
	x.writePlace(e, p, b)
}

func (x *Exec) nativeFunc(e *Env, callee *types.Func, n *ast.CallExpr) (Value, bool) {
	pp, key := funcKey(callee)
	switch pp + "." + key {
	case "math/big.NewInt":
		if bigPtrType == nil {
			bigPtrType = callee.Type().(*types.Signature).Results().At(0).Type()
		}
		return x.newBig(e, e.toIntTerm(e.expr(n.Args[0]))), true
	case "errors.New":
		// a fresh error distinct from every sentinel: kind = fresh id
		id := x.errKindID(fmt.Sprintf("errors.New@%s", x.pos(n)))
		return ErrV{Nil: FalseT, Kind: IntC(int64(id)), Type: IntC(0), Off: IntC(0)}, true
	case "fmt.Errorf":
		return x.errorf(e, n), true
	case "strconv.FormatUint", "strconv.FormatInt", "strconv.Itoa":
		// decimal text of an integer (base 10 only): like fmt's %d
		if key != "Itoa" {
			if b, ok := e.toIntTerm(e.expr(n.Args[1])).Int64(); !ok || b != 10 {
				return nil, false
			}
		}
		return x.decimalString(e, e.toIntTerm(e.expr(n.Args[0])), "", ""), true
	case "fmt.Sprintf", "fmt.Sprint":
		if x.inGlobalInit > 0 {
			return e.stringLit("", types.Typ[types.String]), true
		}
		if key == "Sprintf" {
			if v, ok := x.sprintfDecimal(e, n); ok {
				return v, true
			}
		}
		return nil, false
	case "errors.Is":
		ev, ok1 := e.expr(n.Args[0]).(ErrV)
		tv, ok2 := e.expr(n.Args[1]).(ErrV)
		if !ok1 || !ok2 {
			unsupported("errors.Is on non-error values")
		}
		return Scalar{And(Not(ev.Nil), Eq(ev.Kind, tv.Kind)), boolT}, true
	case "errors.As":
		return x.errorsAs(e, n), true
	case "strings.Split":
		return x.stringsSplit(e, n)
	case "regexp.MustCompile":
		if pat, ok := regexLiteral(n); ok {
			return RegexV{Pattern: pat, Typ: callee.Type().(*types.Signature).Results().At(0).Type()}, true
		}
		return nil, false
	case "strings.HasPrefix", "strings.HasSuffix", "strings.TrimPrefix", "strings.TrimSuffix":
		sv, ok1 := e.expr(n.Args[0]).(SliceV)
		pv, ok2 := e.expr(n.Args[1]).(SliceV)
		if !ok1 || !ok2 {
			unsupported("%s on non-strings", key)
		}
		x.trusted["strings."+key+" by its definition on byte sequences"] = true
		suffix := strings.HasSuffix(key, "Suffix")
		part := sv
		part.Len = pv.Len
		if suffix {
			part.Off = Add(sv.Off, Sub(sv.Len, pv.Len))
		}
		c := And(Le(pv.Len, sv.Len), x.stringEq(e, part, pv))
		if strings.HasPrefix(key, "Has") {
			return Scalar{c, boolT}, true
		}
		c = x.simplifyWithPC(e.st, c)
		r := sv
		if suffix {
			r.Len = Ite(c, Sub(sv.Len, pv.Len), sv.Len)
		} else {
			r.Off = Ite(c, Add(sv.Off, pv.Len), sv.Off)
			r.Len = Ite(c, Sub(sv.Len, pv.Len), sv.Len)
		}
		r.Cap = r.Len
		return r, true
	case "sync/atomic.LoadUint32", "sync/atomic.LoadUint64", "sync/atomic.LoadInt32", "sync/atomic.LoadInt64":
		// a shared variable: another goroutine may have written it, the value read is arbitrary
		x.trusted["sync/atomic loads return an arbitrary value of the type (other goroutines may write the variable); stores and adds make the variable arbitrary"] = true
		sig := callee.Type().(*types.Signature)
		pv, ok := e.expr(n.Args[0]).(PtrV)
		if ok {
			x.safety(e, "nil", n, Not(pv.Nil))
		}
		return x.havoc(e, sig.Results().At(0).Type(), "atomic.load"), true
	case "sync/atomic.StoreUint32", "sync/atomic.StoreUint64", "sync/atomic.AddUint32", "sync/atomic.AddUint64", "sync/atomic.AddInt32", "sync/atomic.AddInt64":
		x.trusted["sync/atomic loads return an arbitrary value of the type (other goroutines may write the variable); stores and adds make the variable arbitrary"] = true
		pv, ok := e.expr(n.Args[0]).(PtrV)
		if !ok {
			unsupported("%s: atomic operation on %T", e.where, e.expr(n.Args[0]))
		}
		x.safety(e, "nil", n, Not(pv.Nil))
		if pv.Alloc != 0 {
			cell := navigate(x.memCell(e.st, pv.Alloc), pv.Path)
			if sc, isS := cell.(Scalar); isS {
				x.setMem(e.st, pv.Alloc, pv.Path, x.havoc(e, sc.Typ, "atomic.cell"))
			}
		}
		sig := callee.Type().(*types.Signature)
		if sig.Results().Len() == 1 {
			return x.havoc(e, sig.Results().At(0).Type(), "atomic.add"), true
		}
		return TupleV{}, true
	case "math.Pow", "math.Log", "math.Ceil", "math.Floor", "math.Exp", "math.Sqrt", "math.Log2", "math.Abs":
		return x.mathFloatFunc(e, key, n)
	case "github.com/iotaledger/iota.go/curl.NewCurlP81":
		h := x.newHash("curlp81", nil)
		h.Elem = types.Typ[types.Int8]
		if sig, ok := callee.Type().(*types.Signature); ok && sig.Results().Len() == 1 {
			_ = sig
		}
		return h, true
	case "crypto/sha512.New":
		return x.newHash("sha512", nil), true
	case "crypto/sha256.New":
		return x.newHash("sha256", nil), true
	case "golang.org/x/crypto/ripemd160.New":
		return x.newHash("ripemd160", nil), true
	case "crypto/hmac.New":
		fv, ok := e.expr(n.Args[0]).(FuncV)
		if !ok {
			unsupported("hmac.New with a non-constant hash constructor")
		}
		pp2, k2 := funcKey(fv.Obj)
		inner := map[string]string{"crypto/sha512.New": "sha512", "crypto/sha256.New": "sha256"}[pp2+"."+k2]
		if inner == "" {
			unsupported("hmac.New(%s.%s)", pp2, k2)
		}
		h := x.newHash("hmac_"+inner, nil)
		h.Chunks = append(h.Chunks, x.chunkOf(e, e.expr(n.Args[1])))
		h.NKey = 1
		return h, true
	case "golang.org/x/crypto/blake2b.Sum256":
		return x.hashBytes(e, "blake2b256", 32, e.expr(n.Args[0]), callee.Type().(*types.Signature).Results().At(0).Type()), true
	case "crypto/sha256.Sum256":
		return x.hashBytes(e, "sha256", 32, e.expr(n.Args[0]), callee.Type().(*types.Signature).Results().At(0).Type()), true
	case "crypto/sha512.Sum512":
		return x.hashBytes(e, "sha512", 64, e.expr(n.Args[0]), callee.Type().(*types.Signature).Results().At(0).Type()), true
	case "bytes.Equal":
		a, ok1 := e.expr(n.Args[0]).(SliceV)
		b, ok2 := e.expr(n.Args[1]).(SliceV)
		if !ok1 || !ok2 {
			unsupported("bytes.Equal on non-slices")
		}
		a.Len, b.Len = x.simplifyWithPC(e.st, a.Len), x.simplifyWithPC(e.st, b.Len)
		return Scalar{x.stringEq(e, a, b), boolT}, true
	case "math/bits.Len", "math/bits.Len64", "math/bits.Len32", "math/bits.Len16", "math/bits.Len8":
		v := e.expr(n.Args[0]).(Scalar)
		return x.bitsLen(e, v), true
	case "math/bits.TrailingZeros", "math/bits.TrailingZeros64", "math/bits.TrailingZeros32", "math/bits.TrailingZeros16", "math/bits.TrailingZeros8":
		v := e.expr(n.Args[0]).(Scalar)
		return x.bitsTZ(e, v), true
	}
	return nil, false
}

// bitsLen: exact definition for bit-vector values; for Int-represented values an axiomatised result.
func (x *Exec) bitsLen(e *Env, v Scalar) Value {
	if v.T.S.K == KBV {
		w := v.T.S.W
		// len = number of bits needed: ite chain from the top
		res := IntC(0)
		for i := 0; i < w; i++ {
			bit := Eq(Extract(i, i, v.T), BVCi(1, 1))
			res = Ite(bit, IntC(int64(i+1)), res)
		}
		return Scalar{res, intT}
	}
	r := x.fresh("bitslen", IntS)
	// 2^(r-1) <= v < 2^r for v > 0, r == 0 for v == 0; stated with a bounded case split
	var cases []*Term
	cases = append(cases, Implies(Eq(v.T, IntC(0)), Eq(r, IntC(0))))
	for i := 1; i <= 64; i++ {
		cases = append(cases, Implies(And(Le(IntB(pow2(i-1)), v.T), Lt(v.T, IntB(pow2(i)))), Eq(r, IntC(int64(i)))))
	}
	e.st.assume(And(cases...))
	e.st.assume(And(Le(IntC(0), r), Le(r, IntC(64))))
	return Scalar{r, intT}
}

func (x *Exec) bitsTZ(e *Env, v Scalar) Value {
	if v.T.S.K != KBV {
		unsupported("bits.TrailingZeros on an Int-represented value (use repr bv)")
	}
	w := v.T.S.W
	res := IntC(int64(w))
	for i := w - 1; i >= 0; i-- {
		bit := Eq(Extract(i, i, v.T), BVCi(1, 1))
		res = Ite(bit, IntC(int64(i)), res)
	}
	return Scalar{res, intT}
}

// ---------------------------------------------------------------- errors

func (x *Exec) errKindID(name string) int {
	if id, ok := errKinds[name]; ok {
		return id
	}
	id := len(errKinds) + 1
	errKinds[name] = id
	errKindNames[id] = name
	return id
}

var errKinds = map[string]int{}
var errKindNames = map[int]string{}
var errTypes = map[string]int{}

func (x *Exec) errTypeID(name string) int {
	name = strings.TrimPrefix(name, "*")
	if i := strings.LastIndex(name, "."); i >= 0 {
		name = name[i+1:]
	}
	if id, ok := errTypes[name]; ok {
		return id
	}
	id := len(errTypes) + 1
	errTypes[name] = id
	return id
}

// errorf: fmt.Errorf with at most one %w keeps the kind of the wrapped error; without %w it is a
// fresh kind.
func (x *Exec) errorf(e *Env, n *ast.CallExpr) Value {
	format := ""
	if bl, ok := n.Args[0].(*ast.BasicLit); ok {
		format = bl.Value
	}
	var wrapped *ErrV
	if strings.Contains(format, "%w") {
		for _, a := range n.Args[1:] {
			if t := e.typeOf(a); t != nil && (isErrorType(t) || implementsError(t)) {
				v := e.expr(a)
				if ev, ok := v.(ErrV); ok {
					wrapped = &ev
					break
				}
				if av, ok := v.(AbsV); ok {
					_ = av
				}
			}
		}
	}
	for _, a := range n.Args[1:] {
		// evaluate arguments for their safety obligations (index expressions etc.)
		if t := e.typeOf(a); t != nil && !isErrorType(t) {
			func() {
				defer func() {
					if r := recover(); r != nil {
						if _, ok := r.(*UnsupportedError); !ok {
							panic(r)
						}
					}
				}()
				e.expr(a)
			}()
		}
	}
	if wrapped != nil {
		return ErrV{Nil: FalseT, Kind: wrapped.Kind, Type: IntC(int64(x.errTypeID("wrapError"))), Off: IntC(0)}
	}
	id := x.errKindID(fmt.Sprintf("fmt.Errorf@%s", x.pos(n)))
	return ErrV{Nil: FalseT, Kind: IntC(int64(id)), Type: IntC(0), Off: IntC(0)}
}

func implementsError(t types.Type) bool {
	et := types.Universe.Lookup("error").Type().Underlying().(*types.Interface)
	return types.Implements(t, et) || types.Implements(types.NewPointer(t), et)
}

// errorStruct: composite literals of struct types that implement error and follow the
// {err error; Offset int} shape become ErrV.
func (x *Exec) errorStruct(e *Env, t types.Type, n *ast.CompositeLit) (Value, bool) {
	if !implementsError(t) {
		return nil, false
	}
	u := t.Underlying().(*types.Struct)
	var inner *ErrV
	off := IntC(0)
	for i, el := range n.Elts {
		var fname string
		var val ast.Expr
		if kv, ok := el.(*ast.KeyValueExpr); ok {
			fname = kv.Key.(*ast.Ident).Name
			val = kv.Value
		} else {
			fname = u.Field(i).Name()
			val = el
		}
		v := e.expr(val)
		switch fv := v.(type) {
		case ErrV:
			inner = &fv
		default:
			if fname == "Offset" {
				off = e.toIntTerm(v)
			}
		}
	}
	if inner == nil {
		return nil, false
	}
	name := types.TypeString(t, func(*types.Package) string { return "" })
	return ErrV{Nil: FalseT, Kind: inner.Kind, Type: IntC(int64(x.errTypeID(name))), Off: off}, true
}

// errorsAs(err, &target): true iff the dynamic type matches the target's element type; then the
// target variable receives the error.
func (x *Exec) errorsAs(e *Env, n *ast.CallExpr) Value {
	ev, ok := e.expr(n.Args[0]).(ErrV)
	if !ok {
		unsupported("errors.As on non-error")
	}
	ue, ok := n.Args[1].(*ast.UnaryExpr)
	if !ok || ue.Op != token.AND {
		unsupported("errors.As target must be &variable")
	}
	tt := e.typeOf(ue.X)
	name := types.TypeString(tt, func(*types.Package) string { return "" })
	id := x.errTypeID(name)
	match := And(Not(ev.Nil), Eq(ev.Type, IntC(int64(id))))
	// assign target
	id0, ok := ue.X.(*ast.Ident)
	if !ok {
		unsupported("errors.As target must be a local variable")
	}
	o := e.info().Uses[id0]
	cur := e.st.vars[o]
	e.st.vars[o] = mergeValLoose(match, ev, cur)
	if x.errAlias == nil {
		x.errAlias = map[types.Object]types.Object{}
	}
	delete(x.errAlias, o)
	if sid, ok := n.Args[0].(*ast.Ident); ok {
		if so := e.info().Uses[sid]; so != nil {
			x.errAlias[o] = so
		}
	}
	return Scalar{match, boolT}
}

func mergeValLoose(g *Term, a ErrV, cur Value) Value {
	if c, ok := cur.(ErrV); ok {
		return mergeVal(g, a, c)
	}
	// pointer-typed zero value: treat as nil error
	z := ErrV{Nil: TrueT, Kind: IntC(0), Type: IntC(0), Off: IntC(0)}
	return mergeVal(g, a, z)
}

// ---------------------------------------------------------------- strings

func (x *Exec) stringEq(e *Env, a, b SliceV) *Term {
	aa := x.memArr(e.st, a.Alloc, a.path)
	ba := x.memArr(e.st, b.Alloc, b.path)
	lenEq := Eq(a.Len, b.Len)
	if lenEq.IsFalse() {
		return FalseT
	}
	n, okA := x.simplifyWithPC(e.st, a.Len).Int64()
	if !okA {
		n, okA = x.simplifyWithPC(e.st, b.Len).Int64()
	}
	if okA && n <= 128 {
		cs := []*Term{lenEq}
		for i := int64(0); i < n; i++ {
			cs = append(cs, Eq(Select(aa.T, Add(a.Off, IntC(i))), Select(ba.T, Add(b.Off, IntC(i)))))
		}
		return And(cs...)
	}
	k := x.fresh("k", IntS)
	return And(lenEq, Forall([]*Term{k}, Implies(And(Le(IntC(0), k), Lt(k, a.Len)), Eq(Select(aa.T, Add(a.Off, k)), Select(ba.T, Add(b.Off, k))))))
}

func (x *Exec) concatStrings(e *Env, a, b SliceV) Value {
	aa := x.memArr(e.st, a.Alloc, a.path)
	ba := x.memArr(e.st, b.Alloc, b.path)
	al := x.alloc()
	na, okA := a.Len.Int64()
	nb, okB := b.Len.Int64()
	var arr *Term
	if okA && okB && na+nb <= 256 {
		arr = ConstArr(e.zeroElem(byteT))
		for i := int64(0); i < na; i++ {
			arr = Store(arr, IntC(i), Select(aa.T, Add(a.Off, IntC(i))))
		}
		for i := int64(0); i < nb; i++ {
			arr = Store(arr, IntC(na+i), Select(ba.T, Add(b.Off, IntC(i))))
		}
	} else {
		arr = x.fresh("concat", aa.T.S)
		k := x.fresh("k", IntS)
		e.st.assume(Forall([]*Term{k}, Implies(And(Le(IntC(0), k), Lt(k, a.Len)), Eq(Select(arr, k), Select(aa.T, Add(a.Off, k))))))
		k2 := x.fresh("k", IntS)
		e.st.assume(Forall([]*Term{k2}, Implies(And(Le(IntC(0), k2), Lt(k2, b.Len)), Eq(Select(arr, Add(a.Len, k2)), Select(ba.T, Add(b.Off, k2))))))
		e.st.assume(x.elemRangeAxiom(e, arr, byteT))
	}
	e.st.mem[al] = ArrayV{T: arr, N: -1, Elem: byteT}
	ln := Add(a.Len, b.Len)
	return SliceV{Alloc: al, Off: IntC(0), Len: ln, Cap: ln, Elem: byteT, IsString: true, Nil: FalseT, Typ: a.Typ}
}

// ---------------------------------------------------------------- maps (constant lookup tables only)

func (x *Exec) compositeMap(e *Env, n *ast.CompositeLit, u *types.Map, t types.Type) Value {
	m := MapV{Typ: t}
	for _, el := range n.Elts {
		kv := el.(*ast.KeyValueExpr)
		m.Keys = append(m.Keys, e.assignable(e.expr(kv.Key), u.Key()))
		m.Vals = append(m.Vals, e.assignable(e.expr(kv.Value), u.Elem()))
	}
	return m
}

func (x *Exec) mapLookup(e *Env, m MapV, k Value) (Value, *Term) {
	u := m.Typ.Underlying().(*types.Map)
	k = e.assignable(k, u.Key())
	res := e.zeroValue(u.Elem(), true)
	found := FalseT
	for i := len(m.Keys) - 1; i >= 0; i-- {
		eq := e.boolTerm(e.binop(token.EQL, m.Keys[i], k, nil))
		res = mergeVal(eq, m.Vals[i], res)
		found = Or(eq, found)
	}
	return res, found
}

func (x *Exec) mapIndex(e *Env, m MapV, k Value, at ast.Node) Value {
	v, _ := x.mapLookup(e, m, k)
	return v
}

func (x *Exec) compositeArrayOf(e *Env, n *ast.CompositeLit, u *types.Array, t types.Type) Value {
	var el []Value
	for _, ex := range n.Elts {
		el = append(el, e.expr(ex))
	}
	return SeqV{Elems: el, Len: IntC(int64(len(el))), Typ: t}
}

// ---------------------------------------------------------------- abstract values (filled in later)

// absBinop: floating-point arithmetic is uninterpreted: every operation is a function symbol over the
// abstract sort Float (no property of IEEE arithmetic is assumed; equal operands give equal results).
func (x *Exec) absBinop(e *Env, op token.Token, a, b Value, at ast.Node) Value {
	fs := UnS("Float")
	toF := func(v Value) (*Term, types.Type, bool) {
		switch c := v.(type) {
		case AbsV:
			if c.T.S == fs {
				return c.T, c.Typ, true
			}
		case UConst:
			return App("float_const_"+floatConstName(c.V), fs), nil, true
		}
		return nil, nil, false
	}
	ta, tya, ok1 := toF(a)
	tb, tyb, ok2 := toF(b)
	if !ok1 || !ok2 {
		unsupported("%s: operator %s on abstract values", e.where, op)
	}
	typ := tya
	if typ == nil {
		typ = tyb
	}
	x.trusted["floating-point operations as uninterpreted functions (no IEEE property assumed)"] = true
	switch op {
	case token.ADD:
		return AbsV{App("fadd", fs, ta, tb), typ}
	case token.SUB:
		return AbsV{App("fsub", fs, ta, tb), typ}
	case token.MUL:
		return AbsV{App("fmul", fs, ta, tb), typ}
	case token.QUO:
		return AbsV{App("fdiv", fs, ta, tb), typ}
	case token.LSS:
		return Scalar{App("flt", BoolS, ta, tb), boolT}
	case token.GTR:
		return Scalar{App("flt", BoolS, tb, ta), boolT}
	case token.LEQ:
		return Scalar{App("fle", BoolS, ta, tb), boolT}
	case token.GEQ:
		return Scalar{App("fle", BoolS, tb, ta), boolT}
	case token.EQL:
		return Scalar{App("feq", BoolS, ta, tb), boolT}
	case token.NEQ:
		return Scalar{Not(App("feq", BoolS, ta, tb)), boolT}
	}
	unsupported("%s: operator %s on floating-point values", e.where, op)
	return nil
}

// floatConstName: constants are named by their float64 value, so that an untyped constant in a
// specification and the same constant after conversion in the code give the same symbol.
func floatConstName(v constant.Value) string {
	f, _ := constant.Float64Val(constant.ToFloat(v))
	return sanitizeConst(strconv.FormatFloat(f, 'x', -1, 64))
}

func sanitizeConst(s string) string {
	r := []rune{}
	for _, c := range s {
		if (c >= '0' && c <= '9') || (c >= 'a' && c <= 'z') || (c >= 'A' && c <= 'Z') {
			r = append(r, c)
		} else {
			r = append(r, '_')
		}
	}
	if len(r) > 40 {
		r = r[:40]
	}
	return string(r)
}

// mathFloatFunc: math.Pow, Log, Ceil, ... as uninterpreted functions.
func (x *Exec) mathFloatFunc(e *Env, name string, n *ast.CallExpr) (Value, bool) {
	fs := UnS("Float")
	var args []*Term
	for _, a := range n.Args {
		switch c := e.expr(a).(type) {
		case AbsV:
			args = append(args, c.T)
		case UConst:
			args = append(args, App("float_const_"+floatConstName(c.V), fs))
		default:
			return nil, false
		}
	}
	x.trusted["floating-point operations as uninterpreted functions (no IEEE property assumed)"] = true
	return AbsV{App("math_"+name, fs, args...), types.Typ[types.Float64]}, true
}
func (x *Exec) absField(e *Env, a AbsV, name string) Value {
	unsupported("%s: field %s of abstract value", e.where, name)
	return nil
}
func (x *Exec) assertType(e *Env, a AbsV, t types.Type) Value { return AbsV{a.T, t} }
func (x *Exec) typeAssert2(e *Env, ta *ast.TypeAssertExpr) TupleV {
	unsupported("type assertion with ok")
	return nil
}
func (x *Exec) callDynamic(e *Env, fun ast.Expr, n *ast.CallExpr) (Value, bool) { return nil, false }
func (x *Exec) absParam(e *Env, t types.Type, name string) (AbsV, bool)         { return AbsV{}, false }

// ---------------------------------------------------------------- package-level variables

func (x *Exec) globalValue(e *Env, o *types.Var) Value {
	if v, ok := x.globals[o]; ok {
		return v
	}
	// sentinel errors
	if isErrorType(o.Type()) {
		id := x.errKindID(o.Pkg().Path() + "." + o.Name())
		v := ErrV{Nil: FalseT, Kind: IntC(int64(id)), Type: IntC(0), Off: IntC(0)}
		x.globals[o] = v
		return v
	}
	p := x.U.Pkgs[o.Pkg().Path()]
	if p == nil || len(p.Syntax) == 0 {
		// a variable of a package that is not analysed (standard library): an interface value is some
		// fixed unknown value
		if s := e.R().sortOf(o.Type()); s != nil && s.K == KUn {
			v := Scalar{Var("global."+o.Pkg().Name()+"."+o.Name(), s), o.Type()}
			x.globals[o] = v
			return v
		}
		unsupported("package-level variable %s.%s: package syntax not loaded", o.Pkg().Path(), o.Name())
	}
	if !immutableGlobal(p.Syntax, p.TypesInfo, o) {
		// a package-level variable that the package assigns somewhere (configuration state): its
		// current value is unknown but fixed for the duration of the function under proof. Sound as
		// long as the code being executed does not assign it, and assignments to package-level
		// variables are outside the supported subset.
		if s := e.R().sortOf(o.Type()); s != nil && s.K == KUn {
			v := Scalar{Var("global."+o.Pkg().Name()+"."+o.Name(), s), o.Type()}
			x.globals[o] = v
			x.trusted["package variable "+o.Pkg().Name()+"."+o.Name()+" has an arbitrary value that does not change during a call"] = true
			return v
		}
		unsupported("package-level variable %s.%s is assigned somewhere in its package", o.Pkg().Path(), o.Name())
	}
	// find the initialiser
	var init ast.Expr
	for _, f := range p.Syntax {
		for _, d := range f.Decls {
			gd, ok := d.(*ast.GenDecl)
			if !ok || gd.Tok != token.VAR {
				continue
			}
			for _, sp := range gd.Specs {
				vs := sp.(*ast.ValueSpec)
				for i, nm := range vs.Names {
					if p.TypesInfo.Defs[nm] == o && i < len(vs.Values) && len(vs.Values) == len(vs.Names) {
						init = vs.Values[i]
					}
				}
			}
		}
	}
	if init == nil {
		unsupported("package-level variable %s.%s has no simple initialiser", o.Pkg().Path(), o.Name())
	}
	// evaluate in a scratch state; allocations it creates become global memory
	st := newState()
	ge := &Env{x: x, st: st, pkg: p, where: "init of " + o.Name()}
	x.inGlobalInit++
	x.frames = append(x.frames, &frame{pkg: p, fn: &ast.FuncDecl{Name: ast.NewIdent("init"), Type: &ast.FuncType{}}, name: "init"})
	v := ge.expr(init)
	v = ge.assignable(v, o.Type())
	x.frames = x.frames[:len(x.frames)-1]
	x.inGlobalInit--
	for a, c := range st.mem {
		x.globalMem[a] = c
	}
	if len(st.pc) > 0 {
		x.globalPC = append(x.globalPC, st.pc...)
	}
	x.globals[o] = v
	return v
}

func immutableGlobal(files []*ast.File, info *types.Info, o *types.Var) bool {
	ok := true
	for _, f := range files {
		ast.Inspect(f, func(n ast.Node) bool {
			check := func(l ast.Expr) {
				for {
					switch m := l.(type) {
					case *ast.Ident:
						if info.Uses[m] == o {
							ok = false
						}
						return
					case *ast.IndexExpr:
						l = m.X
					case *ast.SelectorExpr:
						l = m.X
					case *ast.ParenExpr:
						l = m.X
					case *ast.StarExpr:
						l = m.X
					default:
						return
					}
				}
			}
			switch s := n.(type) {
			case *ast.AssignStmt:
				for _, l := range s.Lhs {
					check(l)
				}
			case *ast.IncDecStmt:
				check(s.X)
			case *ast.UnaryExpr:
				if s.Op == token.AND {
					check(s.X)
				}
			}
			return true
		})
	}
	return ok
}

// hashBytes: a hash function is an uninterpreted function of the bytes written (T4). For inputs
// of a statically known length the function takes the individual bytes as arguments, so equal
// contents give equal digests without any array congruence reasoning.
func (x *Exec) hashBytes(e *Env, name string, outLen int, v Value, rt types.Type) Value {
	h := x.newHash(name, nil)
	h.Chunks = []hchunk{x.chunkOf(e, v)}
	d := x.digest(e, h)
	arr := x.memArr(e.st, d.Alloc, nil)
	return ArrayV{T: arr.T, N: int64(outLen), Elem: byteT, Typ: rt}
}

// simplifyWithPC rewrites a term with facts of the current path: symbols equal to constants are
// substituted, and if-then-else conditions that are path facts are resolved. The facts are closed
// under a few propositional rules (b = phi with b known, a => b with a known).
func (x *Exec) simplifyWithPC(st *State, t *Term) *Term {
	if t.IsConst() {
		return t
	}
	facts := map[*Term]bool{}
	var add func(p *Term)
	add = func(p *Term) {
		if facts[p] {
			return
		}
		facts[p] = true
		if p.Op == "and" {
			for _, a := range p.Args {
				add(a)
			}
		}
	}
	for _, p := range st.pc {
		add(p)
	}
	holds := func(c *Term) bool {
		if facts[c] {
			return true
		}
		if c.Op == "and" {
			for _, a := range c.Args {
				if !facts[a] {
					return false
				}
			}
			return true
		}
		return false
	}
	for round := 0; round < 4; round++ {
		n := len(facts)
		var cur []*Term
		for f := range facts {
			cur = append(cur, f)
		}
		for _, f := range cur {
			switch f.Op {
			case "=":
				a, b := f.Args[0], f.Args[1]
				if a.S == BoolS {
					if holds(a) {
						add(b)
					} else if holds(b) {
						add(a)
					} else if facts[Not(a)] {
						add(Not(b))
					} else if facts[Not(b)] {
						add(Not(a))
					}
				}
			case "=>":
				if holds(f.Args[0]) {
					add(f.Args[1])
				}
			}
		}
		if len(facts) == n {
			break
		}
	}
	m := map[string]*Term{}
	for f := range facts {
		switch {
		case f.Op == "var" && f.S == BoolS:
			m[f.Name] = TrueT
		case f.Op == "not" && f.Args[0].Op == "var":
			m[f.Args[0].Name] = FalseT
		case f.Op == "=" && f.Args[0].Op == "var" && f.Args[1].IsConst():
			m[f.Args[0].Name] = f.Args[1]
		case f.Op == "=" && f.Args[1].Op == "var" && f.Args[0].IsConst():
			m[f.Args[1].Name] = f.Args[0]
		}
	}
	r := t
	if len(m) > 0 {
		r = subst(t, m)
	}
	return resolveIte(r, holds, facts)
}

func resolveIte(t *Term, holds func(*Term) bool, facts map[*Term]bool) *Term {
	return resolveIteMemo(t, holds, facts, map[*Term]*Term{})
}

func resolveIteMemo(t *Term, holds func(*Term) bool, facts map[*Term]bool, memo map[*Term]*Term) *Term {
	if r, ok := memo[t]; ok {
		return r
	}
	res := t
	if t.Op == "ite" && holds(t.Args[0]) {
		res = resolveIteMemo(t.Args[1], holds, facts, memo)
	} else if t.Op == "ite" && facts[Not(t.Args[0])] {
		res = resolveIteMemo(t.Args[2], holds, facts, memo)
	} else if len(t.Args) > 0 && t.Op != "forall" && t.Op != "exists" {
		args := make([]*Term, len(t.Args))
		ch := false
		for i, a := range t.Args {
			args[i] = resolveIteMemo(a, holds, facts, memo)
			if args[i] != a {
				ch = true
			}
		}
		if ch {
			res = rebuild(t, args)
		}
	}
	memo[t] = res
	return res
}

// peekValue evaluates a receiver expression that is a plain variable without side effects.
func (x *Exec) peekValue(e *Env, recv ast.Expr) (Value, bool) {
	id, ok := recv.(*ast.Ident)
	if !ok {
		return nil, false
	}
	info := e.info()
	if info == nil {
		return nil, false
	}
	o := info.Uses[id]
	if o == nil {
		return nil, false
	}
	v, ok := e.lookupVar(o)
	return v, ok
}

// ---------------------------------------------------------------- encoding/binary

// binaryMethod: binary.{LittleEndian,BigEndian}.{Uint16,Uint32,Uint64,PutUint16,PutUint32,PutUint64}
// by their definition; both panic when the slice is too short.
func (x *Exec) binaryMethod(e *Env, key string, n *ast.CallExpr) (Value, bool) {
	little := strings.HasPrefix(key, "littleEndian.")
	name := key[strings.Index(key, ".")+1:]
	put := strings.HasPrefix(name, "Put")
	var nb int64
	var typ types.Type
	switch strings.TrimPrefix(name, "Put") {
	case "Uint16":
		nb, typ = 2, types.Typ[types.Uint16]
	case "Uint32":
		nb, typ = 4, types.Typ[types.Uint32]
	case "Uint64":
		nb, typ = 8, types.Typ[types.Uint64]
	default:
		return nil, false
	}
	x.trusted["encoding/binary fixed-width integer codecs by their definition"] = true
	sv, ok := e.expr(n.Args[0]).(SliceV)
	if !ok {
		unsupported("%s: binary.%s on %T", e.where, name, e.expr(n.Args[0]))
	}
	x.safety(e, "index", n, Le(IntC(nb), sv.Len))
	arr := x.memArr(e.st, sv.Alloc, sv.path)
	pos := func(i int64) *Term { // index of the byte of weight 256^i
		if little {
			return Add(sv.Off, IntC(i))
		}
		return Add(sv.Off, IntC(nb-1-i))
	}
	if put {
		v := e.assignable(e.expr(n.Args[1]), typ).(Scalar)
		t := arr.T
		for i := int64(0); i < nb; i++ {
			var b *Term
			if v.T.S.K == KBV {
				b = Extract(int(8*i+7), int(8*i), v.T)
				if arr.T.S.Elem.K != KBV {
					b = BV2Nat(b)
				}
			} else {
				b = EMod(EDiv(v.T, IntB(pow2(int(8*i)))), IntC(256))
				if arr.T.S.Elem.K == KBV {
					b = Int2BV(8, b)
				}
			}
			t = Store(t, pos(i), b)
		}
		x.setMem(e.st, sv.Alloc, sv.path, ArrayV{T: t, N: arr.N, Elem: arr.Elem, Typ: arr.Typ})
		return TupleV{}, true
	}
	rs := e.R().sortOf(typ)
	if rs.K == KBV {
		var t *Term
		for i := nb - 1; i >= 0; i-- {
			b := Select(arr.T, pos(i))
			if b.S.K != KBV {
				b = Int2BV(8, b)
			}
			if t == nil {
				t = b
			} else {
				t = Concat(t, b)
			}
		}
		return Scalar{t, typ}, true
	}
	t := IntC(0)
	for i := nb - 1; i >= 0; i-- {
		b := Select(arr.T, pos(i))
		if b.S.K == KBV {
			b = BV2Nat(b)
		} else {
			e.st.assume(e.R().rangeOf(b, byteT)) // instance of the element-range invariant of byte arrays
		}
		t = Add(Mul(t, IntC(256)), b)
	}
	return Scalar{t, typ}, true
}

// sprintfDecimal: fmt.Sprintf with a constant format made of literal text and exactly one %d whose
// argument is an integer: the result is prefix ++ digits ++ suffix, where digits is the decimal text of
// the value: between 1 and 20 ASCII digits for a non-negative value (with a leading '-' allowed
// otherwise); which digits is left to strconv.decarr/declen, an uninterpreted function of the value.
func (x *Exec) sprintfDecimal(e *Env, n *ast.CallExpr) (Value, bool) {
	if len(n.Args) != 2 {
		return nil, false
	}
	fs, ok := e.expr(n.Args[0]).(SliceV)
	if !ok {
		return nil, false
	}
	format, ok := x.constString(e, fs)
	if !ok || strings.Count(format, "%") != 1 || !strings.Contains(format, "%d") {
		return nil, false
	}
	v, ok := e.expr(n.Args[1]).(Scalar)
	if !ok {
		return nil, false
	}
	vt := e.toIntTerm(v)
	pre, suf := format[:strings.Index(format, "%d")], format[strings.Index(format, "%d")+2:]
	return x.decimalString(e, vt, pre, suf), true
}

// decimalString: pre ++ decimal digits of vt ++ suf as a fresh string.
func (x *Exec) decimalString(e *Env, vt *Term, pre, suf string) Value {
	x.trusted["decimal formatting (fmt %d, strconv.FormatUint/FormatInt/Itoa base 10): literal text around 1 to 20 ASCII digits, a leading '-' for negative values"] = true
	a := x.alloc()
	es := e.R().sortOf(byteT)
	arr := x.fresh("sprintf", ArrS(es))
	e.st.mem[a] = ArrayV{T: arr, N: -1, Elem: byteT}
	e.st.assume(x.elemRangeAxiom(e, arr, byteT))
	dl := App("strconv.declen", IntS, vt)
	e.st.assume(And(Le(IntC(1), dl), Le(dl, IntC(20))))
	byteOf := func(t *Term) *Term { return e.toIntTerm(Scalar{t, byteT}) }
	for i := 0; i < len(pre); i++ {
		e.st.assume(Eq(byteOf(Select(arr, IntC(int64(i)))), IntC(int64(pre[i]))))
	}
	k := x.fresh("k", IntS)
	start := IntC(int64(len(pre)))
	isDigit := And(Le(IntC('0'), byteOf(Select(arr, k))), Le(byteOf(Select(arr, k)), IntC('9')))
	first := byteOf(Select(arr, start))
	// every position of the digit field is a digit, except that the first may be '-' for a negative value
	e.st.assume(Forall([]*Term{k}, Implies(And(Lt(start, k), Lt(k, Add(start, dl))), isDigit)))
	e.st.assume(Or(And(Le(IntC('0'), first), Le(first, IntC('9'))), And(Lt(vt, IntC(0)), Eq(first, IntC('-')))))
	for i := 0; i < len(suf); i++ {
		e.st.assume(Eq(byteOf(Select(arr, Add(Add(start, dl), IntC(int64(i))))), IntC(int64(suf[i]))))
	}
	ln := Add(IntC(int64(len(pre)+len(suf))), dl)
	return SliceV{Alloc: a, Off: IntC(0), Len: ln, Cap: ln, Elem: byteT, IsString: true, Nil: FalseT, Typ: types.Typ[types.String]}
}
