package main

// Cone-of-influence slicing of a verification condition: assumptions that share no symbol
// (transitively) with the goal are dropped for a first, fast attempt. Dropping assumptions can
// only make a proof fail, never succeed wrongly; when the sliced VC is not proved the full VC is
// tried.

import "strings"

type atomSet struct {
	precise map[string]bool // scalar symbols, arr[c] cells, function names
	whole   map[string]bool // arrays used other than at a constant index
}

func newAtomSet() *atomSet {
	return &atomSet{precise: map[string]bool{}, whole: map[string]bool{}}
}

// collectAtoms walks the term DAG once (bound variables have globally unique names).
func collectAtoms(t *Term, as *atomSet, bound map[string]bool) {
	bn := map[string]bool{}
	seen := map[*Term]bool{}
	var cb func(t *Term)
	cb = func(t *Term) {
		if seen[t] {
			return
		}
		seen[t] = true
		for _, b := range t.Bound {
			bn[b.Name] = true
		}
		for _, a := range t.Args {
			cb(a)
		}
	}
	cb(t)
	seen = map[*Term]bool{}
	var walk func(t *Term)
	walk = func(t *Term) {
		if seen[t] {
			return
		}
		seen[t] = true
		switch t.Op {
		case "var":
			if bn[t.Name] {
				return
			}
			if t.S.K == KArr {
				as.whole[t.Name] = true
			} else {
				as.precise[t.Name] = true
			}
			return
		case "select":
			if t.Args[0].Op == "var" && t.Args[1].Op == "const" {
				as.precise[t.Args[0].Name+"["+t.Args[1].V.String()+"]"] = true
				return
			}
		case "app":
			as.precise["@"+t.Name] = true
		}
		for _, a := range t.Args {
			walk(a)
		}
	}
	walk(t)
}

func arrOfCell(a string) string {
	if i := strings.LastIndex(a, "["); i > 0 && strings.HasSuffix(a, "]") {
		return a[:i]
	}
	return ""
}

// slicePC returns the assumptions relevant to the goal, or nil when slicing removes nothing.
func slicePC(pc []*Term, goal *Term, depth int) []*Term {
	n := len(pc)
	sets := make([]*atomSet, n)
	for i, p := range pc {
		sets[i] = newAtomSet()
		collectAtoms(p, sets[i], nil)
	}
	g := newAtomSet()
	collectAtoms(goal, g, nil)
	cl := map[string]bool{}
	clWhole := map[string]bool{}
	for a := range g.precise {
		cl[a] = true
	}
	for a := range g.whole {
		clWhole[a] = true
	}
	in := make([]bool, n)
	related := func(s *atomSet) bool {
		for a := range s.precise {
			if cl[a] {
				return true
			}
			if arr := arrOfCell(a); arr != "" && clWhole[arr] {
				return true
			}
		}
		for a := range s.whole {
			if clWhole[a] {
				return true
			}
			for c := range cl {
				if arrOfCell(c) == a {
					return true
				}
			}
		}
		return false
	}
	// breadth-first, at most `depth` rounds: assumptions far from the goal are rarely needed and the
	// full VC is tried when the slice is not enough
	for round := 0; round < depth; round++ {
		var add []int
		for i := range pc {
			if !in[i] && related(sets[i]) {
				add = append(add, i)
			}
		}
		if len(add) == 0 {
			break
		}
		for _, i := range add {
			in[i] = true
			if len(sets[i].precise) > 24 {
				continue // hub assumptions (e.g. a hash over all bytes) do not widen the cone
			}
			for a := range sets[i].precise {
				cl[a] = true
			}
			if !hasQuant(pc[i]) {
				for a := range sets[i].whole {
					clWhole[a] = true
				}
			}
		}
	}
	var out []*Term
	for i, p := range pc {
		if in[i] {
			out = append(out, p)
		}
	}
	if len(out) == n {
		return nil
	}
	return out
}

func hasQuant(t *Term) bool {
	seen := map[*Term]bool{}
	var walk func(t *Term) bool
	walk = func(t *Term) bool {
		if seen[t] {
			return false
		}
		seen[t] = true
		if t.Op == "forall" || t.Op == "exists" {
			return true
		}
		for _, a := range t.Args {
			if walk(a) {
				return true
			}
		}
		return false
	}
	return walk(t)
}
