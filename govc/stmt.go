package main

import (
	"time"
	"fmt"
	"go/ast"
	"go/token"
	"go/types"
	"sort"
	"strings"
)

type okind int

const (
	oNormal okind = iota
	oBreak
	oContinue
	oReturn
	oGoto
	oFallthrough
	oPanic
)

type outcome struct {
	kind  okind
	label string
	st    *State
}

func (x *Exec) env(st *State) *Env {
	fr := x.top()
	return &Env{x: x, st: st, pkg: fr.pkg, where: fr.name}
}

func (x *Exec) execBlock(st *State, stmts []ast.Stmt) []outcome {
	cur := []*State{st}
	var outs []outcome
	for si, s := range stmts {
		var next []*State
		if lab, ok := s.(*ast.LabeledStmt); ok && gotoTargetIn(lab.Label.Name, stmts[si:]) {
			// `L: ...; goto L`: the rest of the block is the body of a loop whose back edge is the goto
			for _, c := range cur {
				outs = append(outs, x.gotoLoop(c, lab, stmts[si+1:])...)
			}
			return outs
		}
		for _, c := range cur {
			for _, o := range x.execStmt(c, s) {
				if o.kind == oNormal {
					next = append(next, o.st)
				} else if o.kind == oGoto {
					// forward/backward goto to a label in this block?
					handled := false
					for ti, t := range stmts {
						if ls, ok := t.(*ast.LabeledStmt); ok && ls.Label.Name == o.label {
							res := x.gotoLabel(o.st, ls, stmts, ti, si)
							outs = append(outs, res...)
							handled = true
							break
						}
					}
					if !handled {
						outs = append(outs, o)
					}
				} else {
					outs = append(outs, o)
				}
			}
		}
		cur = next
		if len(cur) == 0 {
			break
		}
	}
	for _, c := range cur {
		outs = append(outs, outcome{kind: oNormal, st: c})
	}
	return outs
}

func (x *Exec) execStmt(st *State, s ast.Stmt) []outcome {
	// analysis budget: a function whose symbolic execution does not finish in reasonable time (for
	// example a long constant-trip loop without invariant inside an inlined helper) is UNDECIDED
	x.steps++
	if x.steps&1023 == 0 && !x.started.IsZero() && time.Since(x.started) > 240*time.Second {
		unsupported("%s: the symbolic execution of this function exceeded its time budget (240 s)", x.pos(s))
	}
	e := x.env(st)
	e.where = x.pos(s)
	switch n := s.(type) {
	case *ast.EmptyStmt:
		return []outcome{{kind: oNormal, st: st}}
	case *ast.BlockStmt:
		return x.execBlock(st, n.List)
	case *ast.ExprStmt:
		if call, ok := n.X.(*ast.CallExpr); ok {
			if id, ok := call.Fun.(*ast.Ident); ok && id.Name == "panic" {
				if _, isB := e.info().Uses[id].(*types.Builtin); isB {
					return x.panicSite(st, n)
				}
			}
		}
		e.expr(n.X)
		return []outcome{{kind: oNormal, st: st}}
	case *ast.DeclStmt:
		gd, ok := n.Decl.(*ast.GenDecl)
		if !ok {
			unsupported("declaration statement")
		}
		if gd.Tok == token.CONST || gd.Tok == token.TYPE {
			return []outcome{{kind: oNormal, st: st}}
		}
		for _, sp := range gd.Specs {
			vs := sp.(*ast.ValueSpec)
			if len(vs.Values) == 0 {
				for _, nm := range vs.Names {
					o := e.info().Defs[nm]
					if o != nil {
						st.vars[o] = x.coerceBV(nm.Name, e.zeroValue(o.Type(), true))
					}
				}
				continue
			}
			if len(vs.Values) == 1 && len(vs.Names) > 1 {
				tup := e.expr(vs.Values[0]).(TupleV)
				for i, nm := range vs.Names {
					x.assignIdent(e, nm, tup[i], true)
				}
				continue
			}
			for i, nm := range vs.Names {
				v := x.exprOrOpaque(e, vs.Values[i], nm)
				x.assignIdent(e, nm, v, true)
			}
		}
		return []outcome{{kind: oNormal, st: st}}
	case *ast.AssignStmt:
		x.assignStmt(e, n)
		return []outcome{{kind: oNormal, st: st}}
	case *ast.IncDecStmt:
		cur := e.expr(n.X)
		op := token.ADD
		if n.Tok == token.DEC {
			op = token.SUB
		}
		v := e.binop(op, cur, UConst{constantOne}, n)
		x.assignTo(e, n.X, v, false)
		return []outcome{{kind: oNormal, st: st}}
	case *ast.IfStmt:
		return x.ifStmt(st, n)
	case *ast.ForStmt:
		return x.forStmt(st, n)
	case *ast.RangeStmt:
		return x.rangeStmt(st, n)
	case *ast.SwitchStmt:
		return x.switchStmt(st, n)
	case *ast.ReturnStmt:
		return x.returnStmt(st, n)
	case *ast.BranchStmt:
		lbl := ""
		if n.Label != nil {
			lbl = n.Label.Name
		}
		switch n.Tok {
		case token.BREAK:
			return []outcome{{kind: oBreak, label: lbl, st: st}}
		case token.CONTINUE:
			return []outcome{{kind: oContinue, label: lbl, st: st}}
		case token.GOTO:
			return []outcome{{kind: oGoto, label: lbl, st: st}}
		case token.FALLTHROUGH:
			return []outcome{{kind: oFallthrough, st: st}}
		}
	case *ast.LabeledStmt:
		return x.labeled(st, n)
	case *ast.GoStmt:
		if x.C != nil && x.C.Prefix && len(x.frames) == 1 {
			x.goStmtPrefix(st, n)
			return []outcome{{kind: oNormal, st: st}}
		}
		unsupported("%s: %T is outside the supported subset", x.pos(s), s)
	case *ast.SelectStmt, *ast.SendStmt, *ast.DeferStmt:
		unsupported("%s: %T is outside the supported subset", x.pos(s), s)
	}
	unsupported("%s: statement %T", x.pos(s), s)
	return nil
}

// exprOrOpaque: in prefix mode an initialiser outside the supported subset (a channel, a sync
// primitive) gives an opaque value instead of stopping the analysis.
func (x *Exec) exprOrOpaque(e *Env, ex ast.Expr, nm *ast.Ident) (v Value) {
	if x.C == nil || !x.C.Prefix || len(x.frames) != 1 {
		return e.expr(ex)
	}
	defer func() {
		if r := recover(); r != nil {
			if _, ok := r.(*UnsupportedError); ok {
				var t types.Type
				if o := e.info().Defs[nm]; o != nil {
					t = o.Type()
				}
				v = AbsV{x.fresh("opaque."+nm.Name, UnS("Opaque")), t}
				return
			}
			panic(r)
		}
	}()
	return e.expr(ex)
}

// goStmtPrefix: a goroutine launch in prefix mode is skipped; the scalar variables its function literal
// mentions are unknown from here on (it may write them at any time).
func (x *Exec) goStmtPrefix(st *State, n *ast.GoStmt) {
	e := x.env(st)
	ast.Inspect(n.Call, func(m ast.Node) bool {
		id, ok := m.(*ast.Ident)
		if !ok {
			return true
		}
		o := e.info().Uses[id]
		if o == nil {
			return true
		}
		if cur, ok := st.vars[o]; ok {
			if sc, isS := cur.(Scalar); isS && sc.Typ != nil {
				st.vars[o] = x.havoc(e, sc.Typ, o.Name()+".shared")
			}
		}
		return true
	})
}

func (x *Exec) labeled(st *State, n *ast.LabeledStmt) []outcome {
	// label on a loop: break/continue with this label are resolved by the loop itself
	outs := x.execStmt(st, n.Stmt)
	var res []outcome
	for _, o := range outs {
		if (o.kind == oBreak) && o.label == n.Label.Name {
			o.kind, o.label = oNormal, ""
		}
		res = append(res, o)
	}
	return res
}

func (x *Exec) panicSite(st *State, n ast.Node) []outcome {
	if x.inGlobalInit > 0 || x.quiet > 0 {
		st.assume(FalseT)
		return []outcome{{kind: oPanic, st: st}}
	}
	fr := x.top()
	ord := x.nodeOrdOf(fr, n.(*ast.ExprStmt).X)
	if len(x.frames) == 1 && x.C != nil && len(x.C.PanicsWhen) > 0 {
		var conds []*Term
		ce := x.entryEnv(x.entry)
		for _, c := range x.C.PanicsWhen {
			ce.where = c.Line
			conds = append(conds, ce.boolTerm(ce.expr(c.Expr)))
		}
		x.addObl("panics", fmt.Sprintf("panics.site.%d", ord), st, Or(conds...), x.pos(n))
	} else {
		name := fmt.Sprintf("safe.panic.%d", ord)
		if len(x.frames) > 1 {
			name = fmt.Sprintf("safe.panic.%s.%d", fr.name, ord)
		}
		x.addObl("safe.panic", name, st, FalseT, x.pos(n))
	}
	return []outcome{{kind: oPanic, st: st}}
}

func (x *Exec) assignIdent(e *Env, id *ast.Ident, v Value, define bool) {
	if id.Name == "_" {
		return
	}
	info := e.info()
	o := info.Defs[id]
	if o == nil {
		o = info.Uses[id]
	}
	if o == nil {
		unsupported("%s: assignment to unknown identifier %s", e.where, id.Name)
	}
	v = e.assignable(v, o.Type())
	v = x.coerceBV(id.Name, v)
	if cur, ok := e.st.vars[o]; ok {
		if r, isRef := cur.(RefV); isRef && info.Defs[id] == nil {
			x.setMem(e.st, r.Alloc, nil, v)
			return
		}
	} else if vo, isVar := o.(*types.Var); isVar && o.Pkg() != nil && vo.Parent() == o.Pkg().Scope() {
		unsupported("%s: assignment to package-level variable %s", e.where, id.Name)
	}
	e.st.vars[o] = v
}

func (x *Exec) assignStmt(e *Env, n *ast.AssignStmt) {
	if n.Tok != token.ASSIGN && n.Tok != token.DEFINE {
		// op=
		op := assignOp(n.Tok)
		cur := e.expr(n.Lhs[0])
		rhs := e.expr(n.Rhs[0])
		v := e.binop(op, cur, rhs, n)
		x.assignTo(e, n.Lhs[0], v, false)
		return
	}
	if len(n.Rhs) == 1 && len(n.Lhs) > 1 {
		rv := e.exprMulti(n.Rhs[0], len(n.Lhs))
		for i, l := range n.Lhs {
			x.assignTo(e, l, rv[i], n.Tok == token.DEFINE)
		}
		return
	}
	vals := make([]Value, len(n.Rhs))
	for i, r := range n.Rhs {
		vals[i] = e.expr(r)
	}
	for i, l := range n.Lhs {
		x.assignTo(e, l, vals[i], n.Tok == token.DEFINE)
	}
}

// exprMulti evaluates an expression yielding n values (call, map index, type assertion).
func (e *Env) exprMulti(r ast.Expr, n int) TupleV {
	if ix, ok := r.(*ast.IndexExpr); ok && n == 2 {
		base := e.expr(ix.X)
		if m, ok := base.(MapV); ok {
			v, found := e.x.mapLookup(e, m, e.expr(ix.Index))
			return TupleV{v, Scalar{found, boolT}}
		}
	}
	if ta, ok := r.(*ast.TypeAssertExpr); ok && n == 2 {
		return e.x.typeAssert2(e, ta)
	}
	v := e.expr(r)
	tup, ok := v.(TupleV)
	if !ok || len(tup) != n {
		unsupported("%s: expected %d values", e.where, n)
	}
	return tup
}

func assignOp(t token.Token) token.Token {
	switch t {
	case token.ADD_ASSIGN:
		return token.ADD
	case token.SUB_ASSIGN:
		return token.SUB
	case token.MUL_ASSIGN:
		return token.MUL
	case token.QUO_ASSIGN:
		return token.QUO
	case token.REM_ASSIGN:
		return token.REM
	case token.AND_ASSIGN:
		return token.AND
	case token.OR_ASSIGN:
		return token.OR
	case token.XOR_ASSIGN:
		return token.XOR
	case token.SHL_ASSIGN:
		return token.SHL
	case token.SHR_ASSIGN:
		return token.SHR
	case token.AND_NOT_ASSIGN:
		return token.AND_NOT
	}
	unsupported("assignment operator %s", t)
	return t
}

type place struct {
	obj   types.Object // variable root (value semantics) ...
	alloc int          // ... or memory root
	path  []string
}

func (x *Exec) placeOf(e *Env, l ast.Expr) place {
	switch n := l.(type) {
	case *ast.ParenExpr:
		return x.placeOf(e, n.X)
	case *ast.Ident:
		info := e.info()
		o := info.Uses[n]
		if o == nil {
			o = info.Defs[n]
		}
		cur, ok := e.st.vars[o]
		if !ok {
			unsupported("%s: %s is not an assignable local", e.where, n.Name)
		}
		switch c := cur.(type) {
		case RefV:
			return place{alloc: c.Alloc}
		case PtrV:
			return place{alloc: c.Alloc, path: append([]string{}, c.Path...)}
		}
		return place{obj: o}
	case *ast.SelectorExpr:
		p := x.placeOf(e, n.X)
		p.path = append(p.path, n.Sel.Name)
		return p
	case *ast.StarExpr:
		v := e.expr(n.X)
		pv, ok := v.(PtrV)
		if !ok {
			unsupported("%s: store through %T", e.where, v)
		}
		return place{alloc: pv.Alloc, path: append([]string{}, pv.Path...)}
	}
	unsupported("%s: unsupported assignment target %T", e.where, l)
	return place{}
}

func (x *Exec) readPlace(e *Env, p place) Value {
	if p.obj != nil {
		return navigate(e.st.vars[p.obj], p.path)
	}
	return navigate(x.memCell(e.st, p.alloc), p.path)
}

func (x *Exec) writePlace(e *Env, p place, v Value) {
	if p.obj != nil {
		e.st.vars[p.obj] = updateAt(e.st.vars[p.obj], p.path, v)
		return
	}
	x.setMem(e.st, p.alloc, p.path, v)
}

func (x *Exec) assignTo(e *Env, l ast.Expr, v Value, define bool) {
	switch n := l.(type) {
	case *ast.ParenExpr:
		x.assignTo(e, n.X, v, define)
	case *ast.Ident:
		x.assignIdent(e, n, v, define)
	case *ast.IndexExpr:
		base := e.expr(n.X)
		iv := e.expr(n.Index)
		switch b := base.(type) {
		case SliceV:
			i := e.indexTerm(iv)
			x.safety(e, "index", n, And(Le(IntC(0), i), Lt(i, b.Len)))
			arr := x.memArr(e.st, b.Alloc, b.path)
			sv := elemCoerce(e.assignable(v, b.Elem).(Scalar), arr.T.S.Elem)
			x.setMem(e.st, b.Alloc, b.path, ArrayV{T: Store(arr.T, Add(b.Off, i), sv.T), N: arr.N, Elem: arr.Elem, Typ: arr.Typ})
		case PtrV:
			arr, ok := navigate(x.memCell(e.st, b.Alloc), b.Path).(ArrayV)
			if !ok {
				unsupported("%s: index store through pointer to non-array", e.where)
			}
			x.safety(e, "nil", n, Not(b.Nil))
			i := e.indexTerm(iv)
			x.safety(e, "index", n, And(Le(IntC(0), i), Lt(i, IntC(arr.N))))
			sv := elemCoerce(e.assignable(v, arr.Elem).(Scalar), arr.T.S.Elem)
			x.setMem(e.st, b.Alloc, b.Path, ArrayV{T: Store(arr.T, i, sv.T), N: arr.N, Elem: arr.Elem, Typ: arr.Typ})
		case ArrayV:
			i := e.indexTerm(iv)
			x.safety(e, "index", n, And(Le(IntC(0), i), Lt(i, IntC(b.N))))
			p := x.placeOf(e, n.X)
			sv := elemCoerce(e.assignable(v, b.Elem).(Scalar), b.T.S.Elem)
			x.writePlace(e, p, ArrayV{T: Store(b.T, i, sv.T), N: b.N, Elem: b.Elem, Typ: b.Typ})
		case SeqV:
			x.seqStore(e, n.X, b, iv, v)
		case MapV:
			unsupported("%s: map store", e.where)
		default:
			unsupported("%s: index store into %T", e.where, base)
		}
	case *ast.SelectorExpr:
		if id, ok := n.X.(*ast.Ident); ok && n.Sel.Name == "Offset" {
			if o := e.info().Uses[id]; o != nil {
				if ev, isErr := e.st.vars[o].(ErrV); isErr {
					// the Offset field of an error struct reached through errors.As: the pointer aliases
					// the error it was extracted from
					x.safety(e, "nil", n, Not(ev.Nil))
					nv := ev
					nv.Off = e.toIntTerm(e.assignable(v, intT))
					e.st.vars[o] = nv
					if src, ok := x.errAlias[o]; ok {
						if sv, isErr := e.st.vars[src].(ErrV); isErr {
							sv.Off = nv.Off
							e.st.vars[src] = sv
						}
					}
					return
				}
			}
		}
		p := x.placeOf(e, n)
		cur := x.readPlace(e, p)
		x.writePlace(e, p, x.assignLike(e, v, cur))
	case *ast.StarExpr:
		p := x.placeOf(e, n)
		cur := x.readPlace(e, p)
		x.writePlace(e, p, x.assignLike(e, v, cur))
	default:
		unsupported("%s: assignment to %T", e.where, l)
	}
}

// assignLike converts constants for a location currently holding cur.
func (x *Exec) assignLike(e *Env, v Value, cur Value) Value {
	switch c := cur.(type) {
	case Scalar:
		return e.assignable(v, c.Typ)
	case SliceV:
		return e.assignable(v, c.Typ)
	case PtrV:
		if _, ok := v.(NilV); ok {
			return PtrV{Nil: TrueT, Typ: c.Typ}
		}
	case ErrV:
		if _, ok := v.(NilV); ok {
			return ErrV{Nil: TrueT, Kind: IntC(0), Type: IntC(0), Off: IntC(0)}
		}
	}
	return v
}

// ---------------------------------------------------------------- if / switch

func (x *Exec) ifStmt(st *State, n *ast.IfStmt) []outcome {
	base := st
	if n.Init != nil {
		outs := x.execStmt(st, n.Init)
		if len(outs) != 1 || outs[0].kind != oNormal {
			unsupported("%s: complex if-initialiser", x.pos(n))
		}
		st = outs[0].st
	}
	e := x.env(st)
	e.where = x.pos(n)
	c := e.boolTerm(e.expr(n.Cond))
	var outs []outcome
	var normals []*State
	fork := st.fork()
	if !c.IsFalse() {
		s1 := st.fork()
		s1.assume(c)
		for _, o := range x.execBlock(s1, n.Body.List) {
			if o.kind == oNormal {
				normals = append(normals, o.st)
			} else {
				outs = append(outs, o)
			}
		}
	}
	if !c.IsTrue() {
		s2 := st.fork()
		s2.assume(Not(c))
		if n.Else != nil {
			for _, o := range x.execStmt(s2, n.Else) {
				if o.kind == oNormal {
					normals = append(normals, o.st)
				} else {
					outs = append(outs, o)
				}
			}
		} else {
			normals = append(normals, s2)
		}
	}
	_ = base
	outs = append(outs, x.joinNormals(fork, normals)...)
	return outs
}

// joinNormals merges fall-through states when possible (keeps VCs small), otherwise keeps paths.
func (x *Exec) joinNormals(base *State, normals []*State) []outcome {
	if len(normals) == 0 {
		return nil
	}
	if len(normals) > 1 {
		if m := mergeStates(base, normals); m != nil {
			x.dropDeadLocals(base, m)
			return []outcome{{kind: oNormal, st: m}}
		}
	}
	var outs []outcome
	for _, s := range normals {
		outs = append(outs, outcome{kind: oNormal, st: s})
	}
	return outs
}

func (x *Exec) dropDeadLocals(base, m *State) {}

func (x *Exec) switchStmt(st *State, n *ast.SwitchStmt) []outcome {
	if n.Init != nil {
		outs := x.execStmt(st, n.Init)
		if len(outs) != 1 || outs[0].kind != oNormal {
			unsupported("%s: complex switch-initialiser", x.pos(n))
		}
		st = outs[0].st
	}
	e := x.env(st)
	e.where = x.pos(n)
	var tag Value
	if n.Tag != nil {
		tag = e.expr(n.Tag)
	}
	clauses := n.Body.List
	conds := make([]*Term, len(clauses))
	def := -1
	for i, cs := range clauses {
		cc := cs.(*ast.CaseClause)
		if cc.List == nil {
			def = i
			continue
		}
		var alts []*Term
		for _, ex := range cc.List {
			v := e.expr(ex)
			if tag != nil {
				alts = append(alts, e.boolTerm(e.binop(token.EQL, tag, v, ex)))
			} else {
				alts = append(alts, e.boolTerm(v))
			}
		}
		conds[i] = Or(alts...)
	}
	fork := st.fork()
	var outs []outcome
	var normals []*State
	var runBody func(i int, s *State)
	runBody = func(i int, s *State) {
		cc := clauses[i].(*ast.CaseClause)
		for _, o := range x.execBlock(s, cc.Body) {
			switch o.kind {
			case oNormal:
				normals = append(normals, o.st)
			case oBreak:
				if o.label == "" {
					normals = append(normals, o.st)
				} else {
					outs = append(outs, o)
				}
			case oFallthrough:
				if i+1 >= len(clauses) {
					unsupported("fallthrough in last clause")
				}
				runBody(i+1, o.st)
			default:
				outs = append(outs, o)
			}
		}
	}
	var negs []*Term
	for i := range clauses {
		if i == def {
			continue
		}
		g := And(append(append([]*Term{}, negs...), conds[i])...)
		if !g.IsFalse() {
			s := st.fork()
			s.assume(g)
			runBody(i, s)
		}
		negs = append(negs, Not(conds[i]))
	}
	gd := And(negs...)
	if !gd.IsFalse() {
		s := st.fork()
		s.assume(gd)
		if def >= 0 {
			runBody(def, s)
		} else {
			normals = append(normals, s)
		}
	}
	outs = append(outs, x.joinNormals(fork, normals)...)
	return outs
}

// ---------------------------------------------------------------- return

func (x *Exec) returnStmt(st *State, n *ast.ReturnStmt) []outcome {
	e := x.env(st)
	e.where = x.pos(n)
	fr := x.top()
	nres := fr.sig.Results().Len()
	st.res = map[string]Value{}
	switch {
	case len(n.Results) == 0:
		for i, ro := range fr.results {
			v, _ := e.lookupVar(ro)
			st.res[fmt.Sprintf("#%d", i)] = v
		}
	case len(n.Results) == 1 && nres > 1:
		tup := e.exprMulti(n.Results[0], nres)
		for i, v := range tup {
			st.res[fmt.Sprintf("#%d", i)] = e.assignable(v, fr.sig.Results().At(i).Type())
		}
	default:
		vals := make([]Value, len(n.Results))
		for i, r := range n.Results {
			vals[i] = e.assignable(e.expr(r), fr.sig.Results().At(i).Type())
		}
		for i, v := range vals {
			st.res[fmt.Sprintf("#%d", i)] = v
		}
	}
	return []outcome{{kind: oReturn, st: st}}
}

// ---------------------------------------------------------------- loops

func (x *Exec) loopID(s ast.Stmt) string {
	fr := x.top()
	ids, ok := loopIDCache[fr.fn]
	if !ok {
		ids = numberLoops(fr.fn.Body)
		loopIDCache[fr.fn] = ids
	}
	return ids[s]
}

var loopIDCache = map[*ast.FuncDecl]map[ast.Stmt]string{}

type loopSpec struct {
	id    string
	stmt  ast.Stmt
	cond  func(st *State) *Term   // loop condition (nil = true)
	pre   func(st *State)         // executed at the start of each iteration (range var binding)
	body  *ast.BlockStmt
	post  func(st *State) []outcome
	label string
	counter types.Object
	exec  func(st *State) []outcome // body execution override (label/goto loops)
}

func (x *Exec) loopBody(st *State, ls *loopSpec) []outcome {
	if ls.exec != nil {
		return ls.exec(st)
	}
	return x.execBlock(st, ls.body.List)
}

// autoInvariant: `lo <= i && i <= hi` for `for i := lo; i < hi; i++` when the body does not assign i
// and hi is a constant, an identifier or len(identifier) that the loop does not assign.
func autoInvariant(ls *loopSpec) []Clause {
	fs, ok := ls.stmt.(*ast.ForStmt)
	tr := []Clause{{Text: "true", Expr: ast.NewIdent("true"), Line: "automatic"}}
	if !ok || fs.Init == nil || fs.Cond == nil || fs.Post == nil {
		return tr
	}
	as, ok := fs.Init.(*ast.AssignStmt)
	if !ok || as.Tok != token.DEFINE || len(as.Lhs) != 1 || len(as.Rhs) != 1 {
		return tr
	}
	iv, ok := as.Lhs[0].(*ast.Ident)
	if !ok {
		return tr
	}
	inc, ok := fs.Post.(*ast.IncDecStmt)
	if !ok || inc.Tok != token.INC {
		return tr
	}
	if id, ok := inc.X.(*ast.Ident); !ok || id.Name != iv.Name {
		return tr
	}
	cond, ok := fs.Cond.(*ast.BinaryExpr)
	if !ok || (cond.Op != token.LSS && cond.Op != token.LEQ) {
		return tr
	}
	if id, ok := cond.X.(*ast.Ident); !ok || id.Name != iv.Name {
		return tr
	}
	// names assigned in the body
	assigned := map[string]bool{}
	ast.Inspect(fs.Body, func(n ast.Node) bool {
		switch s := n.(type) {
		case *ast.AssignStmt:
			for _, l := range s.Lhs {
				if id, ok := l.(*ast.Ident); ok {
					assigned[id.Name] = true
				}
			}
		case *ast.IncDecStmt:
			if id, ok := s.X.(*ast.Ident); ok {
				assigned[id.Name] = true
			}
		case *ast.UnaryExpr:
			if s.Op == token.AND {
				if id, ok := s.X.(*ast.Ident); ok {
					assigned[id.Name] = true
				}
			}
		}
		return true
	})
	if assigned[iv.Name] {
		return tr
	}
	hiOK := false
	switch h := cond.Y.(type) {
	case *ast.BasicLit:
		hiOK = true
	case *ast.Ident:
		hiOK = !assigned[h.Name]
	case *ast.CallExpr:
		if f, ok := h.Fun.(*ast.Ident); ok && f.Name == "len" && len(h.Args) == 1 {
			if a, ok := h.Args[0].(*ast.Ident); ok {
				hiOK = !assigned[a.Name]
			}
		}
	}
	switch as.Rhs[0].(type) {
	case *ast.BasicLit, *ast.Ident:
	default:
		hiOK = false
	}
	if lo, ok := as.Rhs[0].(*ast.Ident); ok && assigned[lo.Name] {
		hiOK = false
	}
	if !hiOK {
		return tr
	}
	var hi ast.Expr = cond.Y
	if cond.Op == token.LEQ {
		hi = &ast.BinaryExpr{X: cond.Y, Op: token.ADD, Y: &ast.BasicLit{Kind: token.INT, Value: "1"}}
	}
	// the invariant only holds when the loop is entered with lo <= hi; otherwise i stays at lo
	inv := &ast.BinaryExpr{
		X:  &ast.BinaryExpr{X: as.Rhs[0], Op: token.LEQ, Y: ast.NewIdent(iv.Name)},
		Op: token.LAND,
		Y: &ast.BinaryExpr{
			X:  &ast.BinaryExpr{X: ast.NewIdent(iv.Name), Op: token.LEQ, Y: hi},
			Op: token.LOR,
			Y:  &ast.BinaryExpr{X: ast.NewIdent(iv.Name), Op: token.EQL, Y: as.Rhs[0]},
		},
	}
	return []Clause{{Text: "automatic counter bounds", Expr: inv, Line: "automatic"}}
}

func (x *Exec) forStmt(st *State, n *ast.ForStmt) []outcome {
	if n.Init != nil {
		outs := x.execStmt(st, n.Init)
		if len(outs) != 1 || outs[0].kind != oNormal {
			unsupported("%s: complex for-initialiser", x.pos(n))
		}
		st = outs[0].st
	}
	ls := &loopSpec{id: x.loopID(n), stmt: n, body: n.Body}
	if n.Cond != nil {
		ls.cond = func(s *State) *Term {
			e := x.env(s)
			e.where = x.pos(n)
			return e.boolTerm(e.expr(n.Cond))
		}
	}
	if n.Post != nil {
		ls.post = func(s *State) []outcome { return x.execStmt(s, n.Post) }
	}
	return x.runLoop(st, ls)
}

func (x *Exec) rangeStmt(st *State, n *ast.RangeStmt) []outcome {
	e := x.env(st)
	e.where = x.pos(n)
	rv := e.expr(n.X)
	if p, ok := rv.(PtrV); ok {
		rv = navigate(x.memCell(st, p.Alloc), p.Path)
	}
	id := x.loopID(n)
	// hidden index variable; when the key is a fresh identifier that the body never assigns, the key
	// variable itself is the counter (so invariants can mention it)
	hidden := types.NewVar(n.Pos(), x.top().pkg.Types, "_i"+id, intT)
	keyIsCounter := false
	if kid, ok := n.Key.(*ast.Ident); ok && n.Tok == token.DEFINE && kid.Name != "_" {
		if ko, ok := e.info().Defs[kid].(*types.Var); ok && !assignedIn(e.info(), n.Body)[ko] {
			hidden = ko
			keyIsCounter = true
		}
	}
	st.vars[hidden] = Scalar{IntC(0), intT}
	var length *Term
	var elemAt func(e *Env, i *Term) Value
	isString := false
	switch r := rv.(type) {
	case SliceV:
		length = r.Len
		if r.IsString {
			isString = true
		}
		elemAt = func(e *Env, i *Term) Value {
			arr := x.memArr(e.st, r.Alloc, r.path)
			return Scalar{Select(arr.T, Add(r.Off, i)), r.Elem}
		}
	case ArrayV:
		length = IntC(r.N)
		elemAt = func(e *Env, i *Term) Value { return Scalar{Select(r.T, i), r.Elem} }
	case Scalar, UConst:
		length = e.toIntTerm(rv)
		elemAt = nil
	case SeqV:
		return x.rangeSeq(st, n, r, hidden)
	case MapV:
		unsupported("%s: range over map", x.pos(n))
	default:
		unsupported("%s: range over %T", x.pos(n), rv)
	}
	if isString {
		return x.rangeString(st, n, rv.(SliceV), hidden, keyIsCounter)
	}
	ls := &loopSpec{id: id, stmt: n, body: n.Body, counter: hidden}
	ls.cond = func(s *State) *Term {
		h := s.vars[hidden].(Scalar)
		return Lt(h.T, length)
	}
	ls.pre = func(s *State) {
		e := x.env(s)
		h := s.vars[hidden].(Scalar)
		if n.Key != nil && !keyIsCounter {
			x.assignTo(e, n.Key, Scalar{h.T, intT}, n.Tok == token.DEFINE)
		}
		if n.Value != nil {
			if elemAt == nil {
				unsupported("range value over integer")
			}
			x.assignTo(e, n.Value, elemAt(e, h.T), n.Tok == token.DEFINE)
		}
	}
	ls.post = func(s *State) []outcome {
		h := s.vars[hidden].(Scalar)
		s.vars[hidden] = Scalar{Add(h.T, IntC(1)), intT}
		return []outcome{{kind: oNormal, st: s}}
	}
	outs := x.runLoop(st, ls)
	for _, o := range outs {
		delete(o.st.vars, hidden)
	}
	return outs
}

// rangeString: for i, c := range s over the UTF-8 decoding. Bytes < 0x80 decode to themselves with
// width 1; for other bytes the rune is an unconstrained value >= 0x80 and the width is 1..4
// (sound over-approximation of UTF-8 decoding).
func (x *Exec) rangeString(st *State, n *ast.RangeStmt, s SliceV, hidden *types.Var, keyIsCounter bool) []outcome {
	id := x.loopID(n)
	width := types.NewVar(n.Pos(), x.top().pkg.Types, "_w"+id, intT)
	st.vars[width] = Scalar{IntC(1), intT}
	ls := &loopSpec{id: id, stmt: n, body: n.Body, counter: hidden}
	ls.cond = func(c *State) *Term {
		h := c.vars[hidden].(Scalar)
		return Lt(h.T, s.Len)
	}
	runeT := types.Typ[types.Int32]
	ls.pre = func(c *State) {
		e := x.env(c)
		h := c.vars[hidden].(Scalar)
		arr := x.memArr(c, s.Alloc, s.path)
		b := Scalar{Select(arr.T, Add(s.Off, h.T)), byteT}
		bi := e.toIntTerm(b)
		ascii := Lt(bi, IntC(128))
		// rune value
		rs := e.R().sortOf(runeT)
		fr := x.fresh("rune", rs)
		w := x.fresh("width", IntS)
		var rv *Term
		if rs.K == KBV {
			rv = Ite(ascii, e.convert(b, runeT).(Scalar).T, fr)
			c.assume(Implies(Not(ascii), And(BVCmp("bvsle", BVCi(128, 32), fr), BVCmp("bvsle", fr, BVCi(0x10FFFF, 32)))))
		} else {
			rv = Ite(ascii, bi, fr)
			c.assume(Implies(Not(ascii), And(Le(IntC(128), fr), Le(fr, IntC(0x10FFFF)))))
		}
		c.assume(And(Le(IntC(1), w), Le(w, IntC(4)), Le(Add(h.T, w), s.Len), Implies(ascii, Eq(w, IntC(1)))))
		c.vars[width] = Scalar{w, intT}
		if n.Key != nil && !keyIsCounter {
			x.assignTo(e, n.Key, Scalar{h.T, intT}, n.Tok == token.DEFINE)
		}
		if n.Value != nil {
			x.assignTo(e, n.Value, Scalar{rv, runeT}, n.Tok == token.DEFINE)
		}
	}
	ls.post = func(c *State) []outcome {
		h := c.vars[hidden].(Scalar)
		w := c.vars[width].(Scalar)
		c.vars[hidden] = Scalar{Add(h.T, w.T), intT}
		return []outcome{{kind: oNormal, st: c}}
	}
	outs := x.runLoop(st, ls)
	for _, o := range outs {
		delete(o.st.vars, hidden)
		delete(o.st.vars, width)
	}
	return outs
}

func (x *Exec) invariantClauses(id string) []Clause {
	fr := x.top()
	if fr.c == nil {
		return nil
	}
	return fr.c.LoopInv[id]
}

func (x *Exec) runLoop(st *State, ls *loopSpec) []outcome {
	inv := x.invariantClauses(ls.id)
	if len(inv) == 0 {
		return x.unrollLoop(st, ls)
	}
	return x.invariantLoop(st, ls, inv)
}

const maxUnroll = 1100

func (x *Exec) unrollLoop(st *State, ls *loopSpec) []outcome {
	var outs []outcome
	cur := []*State{st}
	var exits []*State
	base := st.fork()
	for iter := 0; len(cur) > 0; iter++ {
		if iter > maxUnroll {
			unsupported("%s: loop %s needs an invariant (unrolling exceeded %d iterations)", x.pos(ls.stmt), ls.id, maxUnroll)
		}
		var next []*State
		for _, s := range cur {
			c := TrueT
			if ls.cond != nil {
				c = ls.cond(s)
			}
			if c.IsFalse() {
				exits = append(exits, s)
				continue
			}
			if !c.IsTrue() && !c.IsFalse() {
				c = x.simplifyWithPC(s, c)
			}
			if c.IsFalse() {
				exits = append(exits, s)
				continue
			}
			if !c.IsTrue() {
				if iter == 0 && len(cur) == 1 && x.specDepth == 0 && x.inGlobalInit == 0 {
					// a loop without an invariant whose trip count is not a constant: analysed with the
					// trivial invariant (plus the bounds of a canonical counter), as a deductive verifier
					// does; whatever the loop computes is unknown after it
					x.trusted["loop without invariant at "+x.pos(ls.stmt)+": analysed with the trivial invariant (its effect is unknown to the proof)"] = true
					return append(outs, x.invariantLoop(st, ls, autoInvariant(ls))...)
				}
				unsupported("%s: loop %s has no invariant and its condition is not decided by constant propagation (iteration %d): %s", x.pos(ls.stmt), ls.id, iter, c)
			}
			if ls.pre != nil {
				ls.pre(s)
			}
			var conts []*State
			for _, o := range x.loopBody(s, ls) {
				switch {
				case o.kind == oNormal || (o.kind == oContinue && (o.label == "" || o.label == ls.label)):
					conts = append(conts, o.st)
				case o.kind == oBreak && (o.label == "" || o.label == ls.label):
					exits = append(exits, o.st)
				default:
					outs = append(outs, o)
				}
			}
			if len(conts) > 1 {
				if m := mergeStates(s0(s, conts), conts); m != nil {
					conts = []*State{m}
				}
			}
			for _, cst := range conts {
				if ls.post != nil {
					for _, po := range ls.post(cst) {
						if po.kind != oNormal {
							unsupported("control flow in loop post statement")
						}
						next = append(next, po.st)
					}
				} else {
					next = append(next, cst)
				}
			}
		}
		cur = next
	}
	outs = append(outs, x.joinNormals(base, exits)...)
	return outs
}

// s0 finds a common base for merging continuation states: the longest common pc prefix.
func s0(orig *State, sts []*State) *State {
	n := len(sts[0].pc)
	for _, s := range sts[1:] {
		m := 0
		for m < n && m < len(s.pc) && s.pc[m] == sts[0].pc[m] {
			m++
		}
		n = m
	}
	b := &State{pc: sts[0].pc[:n]}
	return b
}

// assignedIn collects variables syntactically assigned in the nodes (directly, or written through
// an index / field / pointer expression rooted at the variable).
func assignedIn(info *types.Info, nodes ...ast.Node) map[types.Object]bool {
	d, t := assignedIn2(info, nodes...)
	for o := range t {
		d[o] = true
	}
	return d
}

func assignedIn2(info *types.Info, nodes ...ast.Node) (direct, through map[types.Object]bool) {
	d, t, _ := assignedIn3(info, nodes...)
	return d, t
}

// assignedIn3 additionally reports, for variables written through, the first field of the written
// path ("" when the whole pointee / an element is written).
func assignedIn3(info *types.Info, nodes ...ast.Node) (direct, through map[types.Object]bool, fields map[types.Object]map[string]bool) {
	direct = map[types.Object]bool{}
	through = map[types.Object]bool{}
	fields = map[types.Object]map[string]bool{}
	mark := func(e ast.Expr) {
		res := direct
		field := ""
		for {
			switch n := e.(type) {
			case *ast.Ident:
				var o types.Object
				if o = info.Uses[n]; o == nil {
					o = info.Defs[n]
				}
				if o != nil {
					res[o] = true
					if res[o] && len(through) >= 0 {
						if _, isT := through[o]; isT {
							if fields[o] == nil {
								fields[o] = map[string]bool{}
							}
							fields[o][field] = true
						}
					}
				}
				return
			case *ast.IndexExpr:
				e = n.X
				res = through
				field = ""
			case *ast.SelectorExpr:
				e = n.X
				res = through
				field = n.Sel.Name
			case *ast.ParenExpr:
				e = n.X
			case *ast.StarExpr:
				e = n.X
				res = through
				field = ""
			default:
				return
			}
		}
	}
	for _, nd := range nodes {
		if nd == nil {
			continue
		}
		ast.Inspect(nd, func(m ast.Node) bool {
			switch s := m.(type) {
			case *ast.AssignStmt:
				for _, l := range s.Lhs {
					mark(l)
				}
			case *ast.IncDecStmt:
				mark(s.X)
			case *ast.RangeStmt:
				if s.Key != nil {
					mark(s.Key)
				}
				if s.Value != nil {
					mark(s.Value)
				}
			case *ast.UnaryExpr:
				if s.Op == token.AND {
					mark(s.X)
				}
			}
			return true
		})
	}
	return
}

// resliceOnly: every assignment to the slice variable o in body has the form o = o[a:b].
func resliceOnly(info *types.Info, o types.Object, body ast.Node) bool {
	ok := true
	ast.Inspect(body, func(m ast.Node) bool {
		as, isAs := m.(*ast.AssignStmt)
		if !isAs {
			return true
		}
		for i, l := range as.Lhs {
			id, isId := l.(*ast.Ident)
			if !isId || (info.Uses[id] != o && info.Defs[id] != o) {
				continue
			}
			if len(as.Rhs) != len(as.Lhs) {
				ok = false
				continue
			}
			se, isSl := as.Rhs[i].(*ast.SliceExpr)
			if !isSl {
				ok = false
				continue
			}
			bid, isId := se.X.(*ast.Ident)
			if !isId || info.Uses[bid] != o {
				ok = false
			}
		}
		return true
	})
	return ok
}

// havocVar replaces the value of a variable by a fresh one of the same shape.
func (x *Exec) havocValueLike(e *Env, v Value, name string, t types.Type) Value {
	switch c := v.(type) {
	case Scalar:
		nv := x.fresh(name, c.T.S)
		e.st.assume(e.R().rangeOf(nv, c.Typ))
		return Scalar{nv, c.Typ}
	case SliceV:
		r := c
		r.Off = x.fresh(name+".off", IntS)
		r.Len = x.fresh(name+".len", IntS)
		r.Cap = x.fresh(name+".cap", IntS)
		e.st.assume(And(Le(IntC(0), r.Off), Le(IntC(0), r.Len), Le(r.Len, r.Cap)))
		if c.IsString {
			r.Cap = r.Len
		}
		if !c.Nil.IsConst() {
			r.Nil = x.fresh(name+".nil", BoolS)
		}
		return r
	case ArrayV:
		arr := x.fresh(name, c.T.S)
		e.st.assume(x.elemRangeAxiom(e, arr, c.Elem))
		return ArrayV{T: arr, N: c.N, Elem: c.Elem, Typ: c.Typ}
	case ErrV:
		return ErrV{Nil: x.fresh(name+".nil", BoolS), Kind: x.fresh(name+".kind", IntS), Type: x.fresh(name+".type", IntS), Off: x.fresh(name+".off", IntS)}
	case AbsV:
		return AbsV{x.fresh(name, c.T.S), c.Typ}
	case StructV:
		f := map[string]Value{}
		for k, w := range c.F {
			f[k] = x.havocValueLike(e, w, name+"."+k, nil)
		}
		return StructV{f, c.Typ}
	case PtrV, RefV:
		return v
	case UConst:
		if t != nil {
			return x.havoc(e, t, name)
		}
	}
	unsupported("cannot havoc loop variable %s of kind %T", name, v)
	return nil
}

func (x *Exec) invariantLoop(st *State, ls *loopSpec, inv []Clause) []outcome {
	fr := x.top()
	if fr.c == nil {
		// a function executed in place without a contract of its own
		fc := *fr
		fc.c = &Contract{}
		fr = &fc
	}
	info := fr.pkg.TypesInfo
	evalInv := func(s *State, obl string) {
		ce := x.localEnv(s)
		for i, c := range inv {
			ce.where = c.Line
			t := ce.boolTerm(ce.expr(c.Expr))
			if obl != "" {
				x.addObl("inv", fmt.Sprintf("inv%s.%s.%d", ls.id, obl, i+1), s, t, c.Line)
			} else {
				s.assume(t)
			}
		}
	}
	// 1. invariant holds on entry
	evalInv(st, "init")
	// 2. havoc everything the loop may modify
	h := st.fork()
	e := x.env(h)
	direct, through, thruFields := assignedIn3(info, ls.body, ls.stmt)
	for o := range through {
		cur, ok := h.vars[o]
		if !ok {
			continue
		}
		switch c := cur.(type) {
		case RefV:
			h.mem[c.Alloc] = x.havocLike(e, h.mem[c.Alloc], o.Name())
		case PtrV:
			if c.Alloc != 0 {
				cell := navigate(x.memCell(h, c.Alloc), c.Path)
				fs := thruFields[o]
				if sv, isStruct := cell.(StructV); isStruct && len(fs) > 0 && !fs[""] {
					// only the fields that the loop writes
					for f := range fs {
						if fv, ok := sv.F[f]; ok {
							p := append(append([]string{}, c.Path...), f)
							x.setMem(h, c.Alloc, p, x.havocLike(e, fv, o.Name()+"."+f))
						}
					}
				} else {
					x.setMem(h, c.Alloc, c.Path, x.havocLike(e, cell, o.Name()))
				}
			}
		case SliceV:
			arr := x.memArr(h, c.Alloc, c.path)
			x.setMem(h, c.Alloc, c.path, x.havocLike(e, arr, o.Name()+".arr"))
		default:
			direct[o] = true
		}
	}
	for o := range direct {
		cur, ok := h.vars[o]
		if !ok {
			continue
		}
		if strings.HasPrefix(ls.label, "goto:") && o.Pos() >= ls.body.Pos() && o.Pos() < ls.body.End() {
			// declared after the label: every pass through the loop declares it afresh
			delete(h.vars, o)
			continue
		}
		if r, isRef := cur.(RefV); isRef {
			h.mem[r.Alloc] = x.havocLike(e, h.mem[r.Alloc], o.Name())
			continue
		}
		if sv, isSlice := cur.(SliceV); isSlice && !resliceOnly(info, o, ls.body) {
			// assigned from append / a call: unknown allocation with unknown contents
			arr := x.memArr(h, sv.Alloc, sv.path)
			na := x.alloc()
			h.mem[na] = x.havocLike(e, ArrayV{T: arr.T, N: -1, Elem: arr.Elem}, o.Name()+".arr")
			nv := x.havocValueLike(e, cur, o.Name(), o.Type()).(SliceV)
			nv.Alloc, nv.path = na, nil
			h.vars[o] = nv
			continue
		}
		h.vars[o] = x.havocValueLike(e, cur, o.Name(), o.Type())
	}
	// hidden range variables
	for o, cur := range h.vars {
		if v, ok := o.(*types.Var); ok && (v.Name() == "_i"+ls.id || v.Name() == "_w"+ls.id || o == ls.counter) {
			h.vars[o] = x.havocValueLike(e, cur, v.Name(), intT)
		}
	}
	// 2b. dry run of one iteration to find effects hidden in callees
	x.dryRunHavoc(h, ls)
	var outs []outcome
	var exits []*State
	// pointer variables that the body re-assigns (buffer swaps): the loop head is examined once per
	// reachable pointer configuration
	configs := x.pointerConfigs(h, ls, direct)
	for _, cfg := range configs {
		h := h.fork()
		for o, v := range cfg {
			h.vars[o] = v
		}
		func() {
	// 3. assume the invariant
			evalInv(h, "")
			// decreases measure
			var dec0 *Term
			decC, hasDec := fr.c.LoopDec[ls.id]
			if hasDec {
				ce := x.localEnv(h)
				ce.where = decC.Line
				dec0 = ce.toIntTerm(ce.expr(decC.Expr))
			}
			c := TrueT
			if ls.cond != nil {
				c = ls.cond(h)
			}
			// exit path
			if !c.IsTrue() {
				ex := h.fork()
				ex.assume(Not(c))
				exits = append(exits, ex)
			}
			// iteration path
			if !c.IsFalse() {
				it := h.fork()
				it.assume(c)
				if ls.pre != nil {
					ls.pre(it)
				}
				for _, o := range x.loopBody(it, ls) {
					switch {
					case o.kind == oNormal || (o.kind == oContinue && (o.label == "" || o.label == ls.label)):
						if fr.c != nil {
							ae := x.localEnv(o.st)
							for ai, ac := range fr.c.LoopAssert[ls.id] {
								ae.where = ac.Line
								t := ae.boolTerm(ae.expr(ac.Expr))
								x.addObl("assert", fmt.Sprintf("assert%s.%d", ls.id, ai+1), o.st, t, ac.Line)
								o.st.assume(t)
							}
							if len(fr.c.LoopUses[ls.id]) > 0 {
								x.applyUses(x.localEnv(o.st), fr.c.LoopUses[ls.id], "loop"+ls.id)
							}
						}
						sts := []*State{o.st}
						if ls.post != nil {
							sts = nil
							for _, po := range ls.post(o.st) {
								sts = append(sts, po.st)
							}
						}
						for _, s := range sts {
							evalInv(s, "keep")
							if hasDec {
								ce := x.localEnv(s)
								ce.where = decC.Line
								d1 := ce.toIntTerm(ce.expr(decC.Expr))
								x.addObl("dec", fmt.Sprintf("dec%s", ls.id), s, And(Le(IntC(0), dec0), Lt(d1, dec0)), decC.Line)
							}
						}
					case o.kind == oBreak && (o.label == "" || o.label == ls.label):
						if fr.c != nil {
							ae := x.localEnv(o.st)
							for ai, ac := range fr.c.LoopExitAssert[ls.id] {
								ae.where = ac.Line
								t := ae.boolTerm(ae.expr(ac.Expr))
								x.addObl("assert", fmt.Sprintf("exitassert%s.%d", ls.id, ai+1), o.st, t, ac.Line)
								o.st.assume(t)
							}
						}
						exits = append(exits, o.st)
					default:
						outs = append(outs, o)
					}
				}
			}

		}()
	}
	for _, s := range exits {
		outs = append(outs, outcome{kind: oNormal, st: s})
	}
	return outs
}

// dryRunHavoc executes the loop body once with obligations suppressed and havocs every memory cell
// and variable that the run changed (catches writes performed inside inlined callees).
func (x *Exec) dryRunHavoc(h *State, ls *loopSpec) {
	x.quiet++
	savedObls := len(x.Obls)
	defer func() {
		x.quiet--
		x.Obls = x.Obls[:savedObls]
	}()
	d := h.fork()
	if ls.cond != nil {
		c := ls.cond(d)
		if c.IsFalse() {
			return
		}
		d.assume(c)
	}
	if ls.pre != nil {
		ls.pre(d)
	}
	start := d.fork()
	outs := x.loopBody(d, ls)
	e := x.env(h)
	changedMem := map[int]bool{}
	for _, o := range outs {
		if o.kind != oNormal && o.kind != oContinue {
			continue
		}
		for a, v := range o.st.mem {
			if w, ok := start.mem[a]; ok && !sameValue(v, w) {
				changedMem[a] = true
			}
		}
		// values with internal state that native methods update (hash objects, builders)
		for k, v := range o.st.vars {
			if hv, isHash := v.(HashV); isHash {
				if w, ok := start.vars[k]; ok && !sameValue(hv, w) {
					// the loop writes to the hash: at the loop head the bytes written so far are unknown
					// (one chunk of unknown content and length replaces everything after the key)
					if cur, ok := h.vars[k].(HashV); ok {
						nh := cur
						nh.Chunks = append([]hchunk{}, cur.Chunks[:cur.NKey]...)
						es := e.R().sortOf(cur.elem())
						ln := x.fresh(k.Name()+".written", IntS)
						h.assume(Le(IntC(0), ln))
						nh.Chunks = append(nh.Chunks, hchunk{arr: x.fresh(k.Name()+".data", ArrS(es)), off: IntC(0), len: ln})
						h.vars[k] = nh
					}
				}
			}
		}
	}
	for a := range changedMem {
		cur, ok := h.mem[a]
		if !ok {
			continue
		}
		if sv, isStruct := cur.(StructV); isStruct {
			// only the fields that some path of the iteration changed
			changed := map[string]bool{}
			for _, o := range outs {
				if nv, ok := o.st.mem[a].(StructV); ok {
					if ov, ok := start.mem[a].(StructV); ok {
						for f, v := range nv.F {
							if !sameValue(v, ov.F[f]) {
								changed[f] = true
							}
						}
					}
				}
			}
			nf := map[string]Value{}
			for f, v := range sv.F {
				if changed[f] {
					nf[f] = x.havocLike(e, v, fmt.Sprintf("mem%d.%s", a, f))
				} else {
					nf[f] = v
				}
			}
			h.mem[a] = StructV{F: nf, Typ: sv.Typ}
			continue
		}
		h.mem[a] = x.havocLike(e, cur, fmt.Sprintf("mem%d", a))
	}
}

// localEnv: contract environment that sees the locals of the current frame, parameters at their
// current values, and old() = function entry.
func (x *Exec) localEnv(s *State) *Env {
	fr := x.top()
	ce := &Env{x: x, st: s, pkg: contractPkgView(fr.pkg), names: map[string]Value{}, contract: true, locals: true, oldSt: x.entry}
	if len(x.frames) == 1 && x.entry != nil {
		ce.names["#old"] = namesBox{x.entryNames()}
	}
	return ce
}

func (x *Exec) entryNames() map[string]Value {
	names := map[string]Value{}
	for o, v := range x.entry.vars {
		names[o.Name()] = v
		if r, ok := v.(RefV); ok {
			names[o.Name()] = x.entry.mem[r.Alloc]
		}
	}
	return names
}

// entryEnv: parameters at entry, evaluated in state s (memory of s).
func (x *Exec) entryEnv(s *State) *Env {
	ce := &Env{x: x, st: s, pkg: contractPkgView(x.Pkg), names: x.entryNames(), contract: true, oldSt: x.entry}
	ce.names["#old"] = namesBox{x.entryNames()}
	return ce
}

func (x *Exec) gotoLabel(st *State, ls *ast.LabeledStmt, stmts []ast.Stmt, target, from int) []outcome {
	unsupported("goto %s", ls.Label.Name)
	return nil
}

func gotoTargetIn(label string, stmts []ast.Stmt) bool {
	found := false
	for _, s := range stmts {
		ast.Inspect(s, func(n ast.Node) bool {
			if b, ok := n.(*ast.BranchStmt); ok && b.Tok == token.GOTO && b.Label != nil && b.Label.Name == label {
				found = true
			}
			if _, ok := n.(*ast.FuncLit); ok {
				return false
			}
			return true
		})
	}
	return found
}

// gotoLoop: a label followed by statements that jump back to it. The loop id is the label name
// (`loop step1 invariant ...`). Reaching the end of the block leaves the loop; `goto L` continues it.
func (x *Exec) gotoLoop(st *State, lab *ast.LabeledStmt, rest []ast.Stmt) []outcome {
	body := &ast.BlockStmt{Lbrace: lab.Pos(), List: append([]ast.Stmt{lab.Stmt}, rest...)}
	name := lab.Label.Name
	ls := &loopSpec{id: name, stmt: lab, body: body, label: "goto:" + name}
	ls.exec = func(s *State) []outcome {
		var res []outcome
		for _, o := range x.execBlock(s, body.List) {
			switch {
			case o.kind == oGoto && o.label == name:
				res = append(res, outcome{kind: oContinue, label: ls.label, st: o.st})
			case o.kind == oNormal:
				res = append(res, outcome{kind: oBreak, label: ls.label, st: o.st})
			default:
				res = append(res, o)
			}
		}
		return res
	}
	fr := x.top()
	if fr.c != nil && fr.c.Peel[name] {
		// first iteration executed separately (its inputs may have another shape than those of the
		// later iterations); the loop proper starts at the first back edge
		var outs []outcome
		for _, o := range ls.exec(st) {
			switch {
			case o.kind == oContinue && o.label == ls.label:
				outs = append(outs, x.runLoop(o.st, ls)...)
			case o.kind == oBreak && o.label == ls.label:
				outs = append(outs, outcome{kind: oNormal, st: o.st})
			default:
				outs = append(outs, o)
			}
		}
		return outs
	}
	return x.runLoop(st, ls)
}

// pointerConfigs: the assignments of allocations to re-assigned pointer variables that are reachable
// at the loop head (found by iterating the body's effect on those variables).
func (x *Exec) pointerConfigs(h *State, ls *loopSpec, direct map[types.Object]bool) []map[types.Object]Value {
	var ptrs []types.Object
	for o := range direct {
		if _, ok := h.vars[o].(PtrV); ok {
			ptrs = append(ptrs, o)
		}
	}
	if len(ptrs) == 0 {
		return []map[types.Object]Value{{}}
	}
	// pointers that the body re-assigns to freshly allocated objects (results of calls) are not part
	// of a finite configuration: at the loop head they point to an unknown object of their type
	{
		initial := map[int]bool{}
		for _, o := range ptrs {
			initial[h.vars[o].(PtrV).Alloc] = true
		}
		x.quiet++
		savedObls := len(x.Obls)
		d := h.fork()
		if ls.cond != nil {
			if c := ls.cond(d); !c.IsFalse() {
				d.assume(c)
			}
		}
		if ls.pre != nil {
			ls.pre(d)
		}
		fresh := map[types.Object]bool{}
		for _, o := range x.loopBody(d, ls) {
			if o.kind != oNormal && o.kind != oContinue {
				continue
			}
			for _, p := range ptrs {
				if nv, ok := o.st.vars[p].(PtrV); ok && !initial[nv.Alloc] {
					fresh[p] = true
				}
			}
		}
		x.quiet--
		x.Obls = x.Obls[:savedObls]
		if len(fresh) > 0 {
			e := x.env(h)
			var rest []types.Object
			for _, p := range ptrs {
				if fresh[p] {
					h.vars[p] = x.havoc(e, p.Type(), p.Name())
				} else {
					rest = append(rest, p)
				}
			}
			ptrs = rest
			if len(ptrs) == 0 {
				return []map[types.Object]Value{{}}
			}
		}
	}
	key := func(c map[types.Object]Value) string {
		var ks []string
		for _, o := range ptrs {
			p := c[o].(PtrV)
			ks = append(ks, fmt.Sprintf("%s=%d%v", o.Name(), p.Alloc, p.Path))
		}
		sort.Strings(ks)
		return strings.Join(ks, ",")
	}
	cur := map[types.Object]Value{}
	for _, o := range ptrs {
		cur[o] = h.vars[o]
	}
	seen := map[string]bool{}
	var out []map[types.Object]Value
	x.quiet++
	savedObls := len(x.Obls)
	defer func() {
		x.quiet--
		x.Obls = x.Obls[:savedObls]
	}()
	for len(out) < 8 {
		k := key(cur)
		if seen[k] {
			return out
		}
		seen[k] = true
		out = append(out, cur)
		d := h.fork()
		for o, v := range cur {
			d.vars[o] = v
		}
		if ls.cond != nil {
			c := ls.cond(d)
			if c.IsFalse() {
				return out
			}
			d.assume(c)
		}
		if ls.pre != nil {
			ls.pre(d)
		}
		var next map[types.Object]Value
		for _, o := range x.loopBody(d, ls) {
			if o.kind != oNormal && o.kind != oContinue {
				continue
			}
			sts := []*State{o.st}
			if ls.post != nil {
				sts = nil
				for _, po := range ls.post(o.st) {
					sts = append(sts, po.st)
				}
			}
			for _, s := range sts {
				n := map[types.Object]Value{}
				for _, p := range ptrs {
					n[p] = s.vars[p]
				}
				if next != nil && key(next) != key(n) {
					unsupported("%s: loop %s re-assigns pointers differently on different paths", x.pos(ls.stmt), ls.id)
				}
				next = n
			}
		}
		if next == nil {
			return out
		}
		cur = next
	}
	unsupported("%s: loop %s has too many pointer configurations", x.pos(ls.stmt), ls.id)
	return nil
}

// elemCoerce adapts an integer scalar to the element sort of the array it is stored into.
func elemCoerce(s Scalar, es *Sort) Scalar {
	if s.T.S == es {
		return s
	}
	if es.K == KBV && s.T.S == IntS {
		return Scalar{Int2BV(es.W, s.T), s.Typ}
	}
	if es == IntS && s.T.S.K == KBV {
		ii, _ := intInfoOf(s.Typ)
		if ii.Signed {
			return Scalar{Ite(BVCmp("bvslt", s.T, BVCi(0, s.T.S.W)), Sub(BV2Nat(s.T), IntB(pow2(s.T.S.W))), BV2Nat(s.T)), s.Typ}
		}
		return Scalar{BV2Nat(s.T), s.Typ}
	}
	return s
}
