package main

// Ghost machinery: `bv` names, `let` bindings of values flowing through calls, `use` of lemmas.

import (
	"fmt"
	"go/ast"
	"go/types"
	"sort"
	"strings"
)

func (x *Exec) isBVName(name string) bool {
	fr := x.top()
	if fr == nil || fr.c == nil {
		return false
	}
	for _, n := range fr.c.BVNames {
		if n == name {
			return true
		}
	}
	return false
}

// coerceBV converts an Int-represented integer scalar to a bit vector when its variable is listed
// in the contract's `bv` clause.
func (x *Exec) coerceBV(name string, v Value) Value {
	if fr := x.top(); fr != nil && fr.c != nil && hasName(fr.c.IntNames, name) {
		if s, ok := v.(Scalar); ok && s.T.S.K == KBV && s.T.Op == "const" {
			ii, _ := intInfoOf(s.Typ)
			if ii.Signed {
				return Scalar{Ite(BVCmp("bvslt", s.T, BVCi(0, s.T.S.W)), Sub(BV2Nat(s.T), IntB(pow2(s.T.S.W))), BV2Nat(s.T)), s.Typ}
			}
			return Scalar{BV2Nat(s.T), s.Typ}
		}
		return v
	}
	if !x.isBVName(name) {
		return v
	}
	s, ok := v.(Scalar)
	if !ok || s.T.S != IntS {
		return v
	}
	ii, ok := intInfoOf(s.Typ)
	if !ok || isMathInt(s.Typ) {
		return v
	}
	return Scalar{Int2BV(ii.W, s.T), s.Typ}
}

func (x *Exec) havocNamed(e *Env, t types.Type, name string, bv bool) Value {
	if bv {
		if ii, ok := intInfoOf(t); ok && !isMathInt(t) {
			return Scalar{x.fresh(name, BVS(ii.W)), t}
		}
	}
	return x.havoc(e, t, name)
}

func hasName(list []string, n string) bool {
	for _, s := range list {
		if s == n {
			return true
		}
	}
	return false
}

// calleeName: the key under which a call's callee is matched by `let` clauses.
func calleeName(info *types.Info, call *ast.CallExpr) string {
	fun := call.Fun
	if p, ok := fun.(*ast.ParenExpr); ok {
		fun = p.X
	}
	switch f := fun.(type) {
	case *ast.Ident:
		if o, ok := info.Uses[f].(*types.Func); ok {
			_, k := funcKey(o)
			return k
		}
	case *ast.SelectorExpr:
		if sel, ok := info.Selections[f]; ok {
			if fn, ok := sel.Obj().(*types.Func); ok {
				_, k := funcKey(fn)
				return k
			}
		}
		if o, ok := info.Uses[f.Sel].(*types.Func); ok {
			pp, k := funcKey(o)
			return shortPkg(pp) + "." + k
		}
	}
	return ""
}

var callOccCache = map[*ast.FuncDecl]map[*ast.CallExpr]int{}

func (x *Exec) callOccurrence(fr *frame, call *ast.CallExpr) (string, int) {
	info := fr.pkg.TypesInfo
	m, ok := callOccCache[fr.fn]
	if !ok {
		m = map[*ast.CallExpr]int{}
		cnt := map[string]int{}
		if fr.fn.Body != nil {
			ast.Inspect(fr.fn.Body, func(n ast.Node) bool {
				if c, ok := n.(*ast.CallExpr); ok {
					if k := calleeName(info, c); k != "" {
						cnt[k]++
						m[c] = cnt[k]
					}
				}
				return true
			})
		}
		callOccCache[fr.fn] = m
	}
	return calleeName(info, call), m[call]
}

// bindLets records ghost bindings for a call made by the function under contract.
func (x *Exec) bindLets(e *Env, call *ast.CallExpr, args []Value, hasRecv bool, result Value, after bool) {
	if len(x.frames) != 1 || x.C == nil || len(x.C.Lets) == 0 || call == nil {
		return
	}
	name, occ := x.callOccurrence(x.top(), call)
	// dynamic occurrence: how many calls of this callee were made so far on this path (kinds argn /
	// recvn / retn); after a merge of paths with different counts the counter is unknown and the
	// dynamic ghosts stay unbound (arbitrary).
	dyn := -1
	hasDyn := false
	for _, lc := range x.C.Lets {
		if lc.Callee == name && strings.HasSuffix(lc.Kind, "n") {
			hasDyn = true
		}
	}
	if hasDyn {
		if e.st.ghost == nil {
			e.st.ghost = map[string]Value{}
		}
		key := "#dyn:" + name
		cur := int64(0)
		known := true
		if v, ok := e.st.ghost[key]; ok {
			if sc, ok := v.(Scalar); ok && sc.T.Op == "const" {
				cur = sc.T.V.Int64()
			} else {
				known = false
			}
		}
		if known {
			if !after {
				cur++
				e.st.ghost[key] = Scalar{T: IntC(cur), Typ: types.Typ[types.Int]}
			}
			dyn = int(cur)
		}
	}
	for _, lc := range x.C.Lets {
		kind := lc.Kind
		if strings.HasSuffix(kind, "n") {
			kind = strings.TrimSuffix(kind, "n")
			if lc.Callee != name || lc.Occ != dyn || (kind == "ret") != after {
				continue
			}
		} else if lc.Callee != name || lc.Occ != occ || (lc.Kind == "ret") != after {
			continue
		}
		if e.st.ghost == nil {
			e.st.ghost = map[string]Value{}
		}
		snap := func(v Value) Value {
			// a ghost is the value at the time of the call: snapshot slice contents
			if sv, ok := v.(SliceV); ok {
				arr := x.memArr(e.st, sv.Alloc, sv.path)
				a := x.alloc()
				e.st.mem[a] = ArrayV{T: arr.T, N: -1, Elem: arr.Elem}
				sv.Alloc, sv.path = a, nil
				return sv
			}
			return v
		}
		switch kind {
		case "arg":
			i := lc.Idx
			if hasRecv {
				i++
			}
			if i < len(args) {
				e.st.ghost[lc.Name] = snap(args[i])
			}
		case "recv":
			if hasRecv {
				// the receiver as it was at the time of the call: a pointer receiver is snapshotted
				if pv, ok := args[0].(PtrV); ok && pv.Alloc != 0 {
					a := x.alloc()
					e.st.mem[a] = navigate(x.memCell(e.st, pv.Alloc), pv.Path)
					e.st.ghost[lc.Name] = PtrV{Alloc: a, Nil: pv.Nil, Typ: pv.Typ}
				} else {
					e.st.ghost[lc.Name] = args[0]
				}
			}
		case "ret":
			if tup, ok := result.(TupleV); ok {
				if lc.Idx < len(tup) {
					e.st.ghost[lc.Name] = tup[lc.Idx]
				}
			} else {
				e.st.ghost[lc.Name] = result
			}
		}
	}
}

// ghostValue resolves a ghost name; unbound ghosts (call not reached on this path) are arbitrary.
func (x *Exec) ghostValue(e *Env, name string) (Value, bool) {
	if v, ok := e.st.ghost[name]; ok {
		return v, true
	}
	if x.C == nil {
		return nil, false
	}
	for _, lc := range x.C.Lets {
		if lc.Name != name {
			continue
		}
		t := x.letType(lc)
		if t == nil {
			unsupported("%s: cannot determine the type of ghost %s", lc.Where, name)
		}
		if e.st.ghost == nil {
			e.st.ghost = map[string]Value{}
		}
		v := x.havoc(e, t, "ghost."+name)
		e.st.ghost[name] = v
		return v, true
	}
	return nil, false
}

func (x *Exec) letType(lc LetClause) types.Type {
	if t := letTypeOf(lc, x.Pkg.TypesInfo, x.Fn); t != nil {
		return t
	}
	// the function no longer calls the callee the ghost is bound to: the ghost is arbitrary; its
	// type is taken from a package-level function of that name, when there is one
	if fn, ok := x.Pkg.Types.Scope().Lookup(lc.Callee).(*types.Func); ok {
		sig := fn.Type().(*types.Signature)
		switch strings.TrimSuffix(lc.Kind, "n") {
		case "arg":
			if lc.Idx < sig.Params().Len() {
				return sig.Params().At(lc.Idx).Type()
			}
		case "ret":
			if lc.Idx < sig.Results().Len() {
				return sig.Results().At(lc.Idx).Type()
			}
		}
	}
	// ... or from a function of an imported package ("strings.Split")
	if i := strings.LastIndex(lc.Callee, "."); i > 0 {
		for _, imp := range x.Pkg.Types.Imports() {
			if imp.Name() != lc.Callee[:i] {
				continue
			}
			if fn, ok := imp.Scope().Lookup(lc.Callee[i+1:]).(*types.Func); ok {
				sig := fn.Type().(*types.Signature)
				switch strings.TrimSuffix(lc.Kind, "n") {
				case "arg":
					if lc.Idx < sig.Params().Len() {
						return sig.Params().At(lc.Idx).Type()
					}
				case "ret":
					if lc.Idx < sig.Results().Len() {
						return sig.Results().At(lc.Idx).Type()
					}
				}
			}
		}
	}
	return nil
}

// letTypeIn: type of a ghost of another function's contract (for modular calls).
func (x *Exec) letTypeIn(lc LetClause, fn *types.Func) types.Type {
	p := x.U.Pkgs[fn.Pkg().Path()]
	if p == nil {
		return nil
	}
	_, key := funcKey(fn)
	fd, _ := findFunc(p, key)
	if fd == nil || fd.Body == nil {
		return nil
	}
	return letTypeOf(lc, p.TypesInfo, fd)
}

func letTypeOf(lc LetClause, info *types.Info, fd *ast.FuncDecl) types.Type {
	// find the callee among the calls of the function
	var res types.Type
	ast.Inspect(fd.Body, func(n ast.Node) bool {
		c, ok := n.(*ast.CallExpr)
		if !ok || res != nil {
			return true
		}
		if calleeName(info, c) != lc.Callee {
			return true
		}
		var fn *types.Func
		switch f := c.Fun.(type) {
		case *ast.Ident:
			fn, _ = info.Uses[f].(*types.Func)
		case *ast.SelectorExpr:
			if sel, ok := info.Selections[f]; ok {
				fn, _ = sel.Obj().(*types.Func)
			} else {
				fn, _ = info.Uses[f.Sel].(*types.Func)
			}
		}
		if fn == nil {
			return true
		}
		sig := fn.Type().(*types.Signature)
		switch strings.TrimSuffix(lc.Kind, "n") {
		case "arg":
			if lc.Idx < sig.Params().Len() {
				res = sig.Params().At(lc.Idx).Type()
			}
		case "recv":
			if sig.Recv() != nil {
				res = sig.Recv().Type()
			}
		case "ret":
			if lc.Idx < sig.Results().Len() {
				res = sig.Results().At(lc.Idx).Type()
			}
		}
		return true
	})
	return res
}

func (u *Universe) findLemma(pkgPath, name string) *Lemma {
	for _, l := range u.Lemmas {
		if l.Name == name && l.PkgPath == pkgPath {
			return l
		}
	}
	for _, l := range u.Lemmas {
		if l.Name == name {
			return l
		}
	}
	return nil
}

func sameRepr(a, b []string) bool {
	norm := func(l []string) string {
		m := map[string]bool{}
		for _, s := range l {
			if k, ok := kindByName[s]; ok {
				m[fmt.Sprint(int(k))] = true
			}
		}
		var ks []string
		for k := range m {
			ks = append(ks, k)
		}
		sort.Strings(ks)
		return strings.Join(ks, ",")
	}
	return norm(a) == norm(b)
}

// applyUses instantiates lemmas named in `use` clauses at the current point: the lemma's
// preconditions become obligations, its conclusions assumptions.
func (x *Exec) applyUses(ce *Env, uses []Clause, tag string) {
	for ui, uc := range uses {
		ui, uc := ui, uc
		func() {
			// a use clause that mentions a local which does not exist on this path is skipped
			defer func() {
				if r := recover(); r != nil {
					if ue, ok := r.(*UnsupportedError); ok && strings.Contains(ue.Msg, "unknown identifier") && !strings.HasPrefix(tag, "loop") {
						// (inside a loop body every local the clause names must exist: a renamed local means
						// the contract no longer binds, which is UNDECIDED, not a failed proof)
						return
					}
					panic(r)
				}
			}()
			x.applyUse(ce, ui, uc, tag)
		}()
	}
}

func (x *Exec) applyUse(ce *Env, ui int, uc Clause, tag string) {
	{
		call, ok := uc.Expr.(*ast.CallExpr)
		if !ok {
			unsupported("%s: use clause must be a lemma application", uc.Line)
		}
		if fid, ok := call.Fun.(*ast.Ident); ok && fid.Name == "forall" && len(call.Args) == 4 {
			// use forall(k, lo, hi, lemma(args)): one instantiation per k of a constant range
			kid, ok1 := call.Args[0].(*ast.Ident)
			lo, ok2 := x.simplifyWithPC(ce.st, ce.toIntTerm(ce.expr(call.Args[1]))).Int64()
			hi, ok3 := x.simplifyWithPC(ce.st, ce.toIntTerm(ce.expr(call.Args[2]))).Int64()
			if !ok1 || !ok2 || !ok3 || hi-lo > 512 {
				unsupported("%s: use forall needs a constant range", uc.Line)
			}
			for k := lo; k < hi; k++ {
				sub := ce.sub(map[string]Value{kid.Name: Scalar{IntC(k), intT}})
				x.applyUse(sub, ui*1000+int(k-lo), Clause{Text: uc.Text, Expr: call.Args[3], Line: uc.Line}, tag)
			}
			return
		}
		var id *ast.Ident
		switch f := call.Fun.(type) {
		case *ast.Ident:
			id = f
		case *ast.SelectorExpr:
			id = f.Sel // pkg.lemma: lemma names are unique across the loaded contract files
		default:
			unsupported("%s: use clause must name a lemma", uc.Line)
		}
		l := x.U.findLemma(x.Pkg.PkgPath, id.Name)
		if l == nil {
			unsupported("%s: unknown lemma %s", uc.Line, id.Name)
		}
		if tag == "entry" && len(l.Requires) > 0 {
			return
		}
		if len(call.Args) != len(l.Params) {
			unsupported("%s: lemma %s expects %d arguments", uc.Line, l.Name, len(l.Params))
		}
		var frRepr []string
		if x.C != nil {
			frRepr = x.C.ReprBV
		}
		if !sameRepr(l.ReprBV, frRepr) {
			unsupported("%s: lemma %s was proved under a different bit-vector representation (%v vs %v)", uc.Line, l.Name, l.ReprBV, frRepr)
		}
		lpkg := x.U.Pkgs[l.PkgPath]
		names := map[string]Value{}
		ce.where = uc.Line
		for i, p := range l.Params {
			t, err := x.U.resolveType(lpkg, p.Type)
			if err != nil {
				unsupported("%s: %v", l.Where, err)
			}
			names[p.Name] = ce.coerceSpecArg(ce.expr(call.Args[i]), t)
		}
		le := &Env{x: x, st: ce.st, pkg: contractPkgView(lpkg), names: names, contract: true, where: l.Where, oldSt: ce.oldSt}
		for i, r := range l.Requires {
			le.where = r.Line
			t := le.boolTerm(le.expr(r.Expr))
			x.addObl("use", fmt.Sprintf("use.%s.%s%d.pre%d", l.Name, tag, ui+1, i+1), ce.st, t, uc.Line)
			ce.st.assume(t)
		}
		for _, en := range l.Ensures {
			le.where = en.Line
			ce.st.assume(le.boolTerm(le.expr(en.Expr)))
		}
		if l.Axiom {
			x.trusted["axiom "+l.PkgPath+"."+l.Name] = true
		}
		x.usedLemmas[l.PkgPath+"."+l.Name] = true
	}
}
