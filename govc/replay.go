package main

import (
	"encoding/json"
	"os"
	"path/filepath"
)

type ReplayResult struct {
	Path      string
	Confirmed bool
}

type ReplayFile struct {
	Property   string            `json:"property"`
	Obligation string            `json:"obligation"`
	Kind       string            `json:"kind"`
	Where      string            `json:"where"`
	Function   string            `json:"function"`
	Status     string            `json:"solver_status"`
	Solver     string            `json:"solver"`
	Output     string            `json:"solver_output"`
	Inputs     map[string]string `json:"inputs,omitempty"`
	GoTest     string            `json:"go_test,omitempty"`
	Observed   string            `json:"observed,omitempty"`
	Confirmed  bool              `json:"confirmed_on_real_code"`
	Goal       string            `json:"goal"`
}

func tryReplay(u *Universe, prop string, o *Obl, opt *Options, dir string) ReplayResult {
	rf := &ReplayFile{Property: prop, Obligation: o.Name, Kind: o.Kind, Where: o.Where, Function: o.Func, Status: o.Status,
		Solver: o.Solver, Output: truncate(o.Model, 4000), Goal: truncate(o.Goal.String(), 2000)}
	path := filepath.Join(dir, fileSafe.ReplaceAllString(o.Name, "_")+".json")
	if o.Status == "sat" {
		concretize(u, o, rf, opt)
	}
	data, _ := json.MarshalIndent(rf, "", " ")
	os.WriteFile(path, data, 0o644)
	return ReplayResult{Path: path, Confirmed: rf.Confirmed}
}

func concretize(u *Universe, o *Obl, rf *ReplayFile, opt *Options) {}

func runReplay(prop, file string, opt *Options) int {
	data, err := os.ReadFile(file)
	if err != nil {
		return 2
	}
	os.Stdout.Write(data)
	return 0
}
