package main

// Replay of solver counterexamples against the real code: the model's input values are turned into
// an in-package Go test (injected with `go test -overlay`, nothing is written into /repo), the real
// function is run, and the contract is re-evaluated on the observed outputs.

import (
	"bytes"
	"context"
	"encoding/json"
	"fmt"
	"go/types"
	"math/big"
	"os"
	"os/exec"
	"path/filepath"
	"regexp"
	"sort"
	"strconv"
	"strings"
	"time"
)

type ReplayResult struct {
	Path      string
	Confirmed bool
}

type ReplayFile struct {
	Property   string                 `json:"property"`
	Obligation string                 `json:"obligation"`
	Kind       string                 `json:"kind"`
	Where      string                 `json:"where"`
	Function   string                 `json:"function"`
	Status     string                 `json:"solver_status"`
	Solver     string                 `json:"solver"`
	Output     string                 `json:"solver_output"`
	Inputs     map[string]interface{} `json:"inputs,omitempty"`
	GoTest     string                 `json:"go_test,omitempty"`
	Observed   map[string]interface{} `json:"observed,omitempty"`
	Verdict    string                 `json:"verdict"`
	Confirmed  bool                   `json:"confirmed_on_real_code"`
	Goal       string                 `json:"goal"`
	PkgDir     string                 `json:"package_dir,omitempty"`
}

func tryReplay(u *Universe, prop string, o *Obl, opt *Options, dir string) ReplayResult {
	rf := &ReplayFile{Property: prop, Obligation: o.Name, Kind: o.Kind, Where: o.Where, Function: o.Func, Status: o.Status,
		Solver: o.Solver, Output: truncate(o.Model, 4000), Goal: truncate(o.Goal.String(), 2000)}
	path := filepath.Join(dir, fileSafe.ReplaceAllString(o.Name, "_")+".json")
	rf.Verdict = "no-failing-input-found: the solver gave no model (" + o.Status + ")"
	if o.Status == "sat" {
		func() {
			defer func() {
				if r := recover(); r != nil {
					rf.Verdict = fmt.Sprintf("no-failing-input-found: replay not possible: %v", r)
				}
			}()
			concretize(u, o, rf, opt)
		}()
	}
	data, _ := json.MarshalIndent(rf, "", " ")
	os.WriteFile(path, data, 0o644)
	return ReplayResult{Path: path, Confirmed: rf.Confirmed}
}

var valRe = regexp.MustCompile(`\(\s*(\|[^|]*\||\(select [^)]*\)|[^\s()]+)\s+(\(-\s*\d+\)|#x[0-9a-fA-F]+|#b[01]+|-?\d+|true|false)\s*\)`)

func parseSMTValue(s string) (*big.Int, bool) {
	s = strings.TrimSpace(s)
	switch {
	case s == "true":
		return big.NewInt(1), true
	case s == "false":
		return big.NewInt(0), true
	case strings.HasPrefix(s, "#x"):
		v, ok := new(big.Int).SetString(s[2:], 16)
		return v, ok
	case strings.HasPrefix(s, "#b"):
		v, ok := new(big.Int).SetString(s[2:], 2)
		return v, ok
	case strings.HasPrefix(s, "(-"):
		t := strings.TrimSpace(strings.Trim(s, "()-"))
		v, ok := new(big.Int).SetString(strings.TrimSpace(t), 10)
		if ok {
			v.Neg(v)
		}
		return v, ok
	}
	v, ok := new(big.Int).SetString(s, 10)
	return v, ok
}

// getValues runs a solver on the obligation plus extra assertions and returns the values of terms.
func getValues(o *Obl, extra []string, terms []string, scratch string) (map[string]*big.Int, bool) {
	if len(terms) == 0 {
		return map[string]*big.Int{}, true
	}
	saved := o.ExtraAsserts
	o.ExtraAsserts = extra
	txt := o.smt(terms)
	o.ExtraAsserts = saved
	fn := filepath.Join(scratch, "model.smt2")
	os.WriteFile(fn, []byte(txt), 0o644)
	order := []solverSpec{solvers[0], solvers[1], solvers[2]}
	for i, sp := range solvers {
		if sp.name == o.Solver {
			order = append([]solverSpec{solvers[i]}, append(append([]solverSpec{}, solvers[:i]...), solvers[i+1:]...)...)
		}
	}
	for _, sp := range order {
		t0 := time.Now()
		r := runSolver(context.Background(), sp, fn, 10)
		if os.Getenv("GOVC_DEBUG") != "" {
			fmt.Fprintf(os.Stderr, "getValues %s: %s in %.1fs\n", sp.name, r.status, time.Since(t0).Seconds())
		}
		if r.status != "sat" {
			continue
		}
		res := map[string]*big.Int{}
		body := r.out[strings.Index(r.out, "sat")+3:]
		for _, m := range valRe.FindAllStringSubmatch(body, -1) {
			if v, ok := parseSMTValue(m[2]); ok {
				res[strings.TrimSpace(m[1])] = v
			}
		}
		return res, true
	}
	return nil, false
}

type concreteInput struct {
	ib    InputBinding
	val   *big.Int
	elems []*big.Int
}

func concretize(u *Universe, o *Obl, rf *ReplayFile, opt *Options) {
	var c *Contract
	for _, cc := range u.Contracts {
		if shortPkg(cc.PkgPath)+"."+cc.Key == o.Func {
			c = cc
		}
	}
	if c == nil {
		rf.Verdict = "no-failing-input-found: obligation does not belong to a function (lemma)"
		return
	}
	pkg := u.Pkgs[c.PkgPath]
	_, obj := findFunc(pkg, c.Key)
	sig := obj.Type().(*types.Signature)
	if sig.Recv() != nil {
		rf.Verdict = "no-failing-input-found: replay of methods is not supported (receiver state is symbolic)"
		return
	}
	scratch, _ := os.MkdirTemp("", "govc-replay-")
	defer os.RemoveAll(scratch)
	// phase 1: scalars and lengths
	var terms []string
	for _, ib := range o.Inputs {
		switch ib.Kind {
		case "scalar", "scalarbv", "bool":
			terms = append(terms, sanitize(ib.Sym["val"]))
		case "slice", "string", "slicebv", "stringbv":
			terms = append(terms, sanitize(ib.Sym["len"]))
		case "array", "arraybv", "ptrarray", "ptrarraybv":
		default:
			rf.Verdict = "no-failing-input-found: parameter " + ib.Name + " of type " + ib.Typ + " cannot be concretised"
			return
		}
	}
	// prefer small inputs: first ask for a model whose slices have at most 64 elements
	var small []string
	for _, t := range terms {
		if strings.Contains(t, ".len") {
			small = append(small, fmt.Sprintf("(<= %s 64)", t))
		}
	}
	vals, ok := getValues(o, small, terms, scratch)
	if !ok {
		vals, ok = getValues(o, nil, terms, scratch)
	}
	if !ok {
		rf.Verdict = "no-failing-input-found: could not re-obtain a model"
		return
	}
	// phase 2: elements
	var extra []string
	var terms2 []string
	for _, t := range terms {
		if v, ok := vals[t]; ok {
			if strings.Contains(t, ".len") {
				extra = append(extra, fmt.Sprintf("(= %s %s)", t, smtInt(v)))
			}
		}
	}
	var cins []concreteInput
	for _, ib := range o.Inputs {
		ci := concreteInput{ib: ib}
		switch ib.Kind {
		case "scalar", "scalarbv", "bool":
			ci.val = vals[sanitize(ib.Sym["val"])]
			if ci.val == nil {
				ci.val = big.NewInt(0)
			}
		case "slice", "string", "slicebv", "stringbv":
			ci.val = vals[sanitize(ib.Sym["len"])]
			if ci.val == nil {
				ci.val = big.NewInt(0)
			}
			if ci.val.Cmp(big.NewInt(2048)) > 0 {
				rf.Verdict = fmt.Sprintf("no-failing-input-found: model needs a %s-element input for %s (skipped)", ci.val, ib.Name)
				return
			}
			for i := int64(0); i < ci.val.Int64(); i++ {
				terms2 = append(terms2, fmt.Sprintf("(select %s %d)", sanitize(ib.Sym["arr"]), i))
			}
		case "array", "arraybv", "ptrarray", "ptrarraybv":
			n, _ := strconv.Atoi(ib.Sym["n"])
			ci.val = big.NewInt(int64(n))
			for i := 0; i < n; i++ {
				terms2 = append(terms2, fmt.Sprintf("(select %s %d)", sanitize(ib.Sym["arr"]), i))
			}
		}
		cins = append(cins, ci)
	}
	vals2, ok := getValues(o, extra, terms2, scratch)
	if !ok {
		rf.Verdict = "no-failing-input-found: could not re-obtain a model with fixed lengths"
		return
	}
	for i := range cins {
		ci := &cins[i]
		switch ci.ib.Kind {
		case "slice", "string", "slicebv", "stringbv", "array", "arraybv", "ptrarray", "ptrarraybv":
			for k := int64(0); k < ci.val.Int64(); k++ {
				v := vals2[fmt.Sprintf("(select %s %d)", sanitize(ci.ib.Sym["arr"]), k)]
				if v == nil {
					v = big.NewInt(0)
				}
				ci.elems = append(ci.elems, v)
			}
		}
	}
	runConcrete(u, c, cins, rf, opt, scratch)
}

// goLiteral renders a concrete input as a Go expression of the parameter's type.
func goLiteral(t types.Type, ci concreteInput, qual types.Qualifier) (string, bool) {
	ts := types.TypeString(t, qual)
	elemLit := func(et types.Type, v *big.Int) string {
		ii, ok := intInfoOf(et)
		if !ok {
			return v.String()
		}
		x := new(big.Int).Mod(v, pow2(ii.W))
		if ii.Signed {
			x = toSigned(x, ii.W)
		}
		return x.String()
	}
	switch u := t.Underlying().(type) {
	case *types.Basic:
		if u.Info()&types.IsString != 0 {
			var b []byte
			for _, e := range ci.elems {
				b = append(b, byte(e.Int64()))
			}
			return fmt.Sprintf("%s(%s)", ts, strconv.Quote(string(b))), true
		}
		if u.Info()&types.IsBoolean != 0 {
			return fmt.Sprintf("%s(%v)", ts, ci.val.Sign() != 0), true
		}
		if u.Info()&types.IsInteger != 0 {
			return fmt.Sprintf("%s(%s)", ts, elemLit(t, ci.val)), true
		}
	case *types.Slice:
		var parts []string
		for _, e := range ci.elems {
			parts = append(parts, elemLit(u.Elem(), e))
		}
		return fmt.Sprintf("%s{%s}", ts, strings.Join(parts, ", ")), true
	case *types.Array:
		var parts []string
		for _, e := range ci.elems {
			parts = append(parts, elemLit(u.Elem(), e))
		}
		return fmt.Sprintf("%s{%s}", ts, strings.Join(parts, ", ")), true
	case *types.Pointer:
		if a, ok := u.Elem().Underlying().(*types.Array); ok {
			var parts []string
			for _, e := range ci.elems {
				parts = append(parts, elemLit(a.Elem(), e))
			}
			return fmt.Sprintf("&%s{%s}", types.TypeString(u.Elem(), qual), strings.Join(parts, ", ")), true
		}
	}
	return "", false
}

type observed struct {
	Panic   string                   `json:"panic"`
	Results []map[string]interface{} `json:"results"`
	Params  []map[string]interface{} `json:"params"`
}

func runConcrete(u *Universe, c *Contract, cins []concreteInput, rf *ReplayFile, opt *Options, scratch string) {
	pkg := u.Pkgs[c.PkgPath]
	_, obj := findFunc(pkg, c.Key)
	sig := obj.Type().(*types.Signature)
	imports := map[string]string{} // path -> name
	qual := func(p *types.Package) string {
		if p == pkg.Types {
			return ""
		}
		imports[p.Path()] = p.Name()
		return p.Name()
	}
	var args []string
	var decls []string
	rf.Inputs = map[string]interface{}{}
	for i, ci := range cins {
		t := sig.Params().At(i).Type()
		lit, ok := goLiteral(t, ci, qual)
		if !ok {
			rf.Verdict = "no-failing-input-found: cannot build a Go literal of type " + t.String()
			return
		}
		decls = append(decls, fmt.Sprintf("\tp%d := %s", i, lit))
		args = append(args, fmt.Sprintf("p%d", i))
		rf.Inputs[ci.ib.Name] = lit
	}
	// sentinel errors of this package, for errors.Is classification
	var sentinels []string
	for _, name := range pkg.Types.Scope().Names() {
		if v, ok := pkg.Types.Scope().Lookup(name).(*types.Var); ok && isErrorType(v.Type()) {
			sentinels = append(sentinels, name)
		}
	}
	sort.Strings(sentinels)
	var sb strings.Builder
	fmt.Fprintf(&sb, "package %s\n\nimport (\n\t\"encoding/json\"\n\t\"errors\"\n\t\"fmt\"\n\t\"os\"\n\t\"reflect\"\n\t\"testing\"\n", pkg.Types.Name())
	body := &strings.Builder{}
	fmt.Fprintf(body, "func TestGovcReplay(t *testing.T) {\n")
	fmt.Fprintf(body, "\tout := map[string]interface{}{}\n")
	fmt.Fprintf(body, "\tdefer func() {\n\t\tif r := recover(); r != nil {\n\t\t\tout[\"panic\"] = fmt.Sprint(r)\n\t\t}\n\t\tb, _ := json.Marshal(out)\n\t\tfmt.Fprintf(os.Stdout, \"\\nGOVC-REPLAY %%s\\n\", b)\n\t}()\n")
	fmt.Fprintf(body, "%s\n", strings.Join(decls, "\n"))
	nres := sig.Results().Len()
	var rnames []string
	for i := 0; i < nres; i++ {
		rnames = append(rnames, fmt.Sprintf("r%d", i))
	}
	call := fmt.Sprintf("%s(%s)", obj.Name(), strings.Join(args, ", "))
	if nres > 0 {
		fmt.Fprintf(body, "\t%s := %s\n", strings.Join(rnames, ", "), call)
	} else {
		fmt.Fprintf(body, "\t%s\n", call)
	}
	fmt.Fprintf(body, "\tenc := func(v interface{}) interface{} {\n\t\tif e, ok := v.(error); ok {\n\t\t\tm := map[string]interface{}{\"error\": e.Error(), \"type\": fmt.Sprintf(\"%%T\", e)}\n")
	for _, s := range sentinels {
		fmt.Fprintf(body, "\t\t\tif errors.Is(e, %s) {\n\t\t\t\tm[\"is\"] = %q\n\t\t\t}\n", s, c.PkgPath+"."+s)
	}
	fmt.Fprintf(body, "\t\t\trv := reflect.ValueOf(e)\n\t\t\tif rv.Kind() == reflect.Ptr {\n\t\t\t\trv = rv.Elem()\n\t\t\t}\n\t\t\tif rv.Kind() == reflect.Struct {\n\t\t\t\tif f := rv.FieldByName(\"Offset\"); f.IsValid() && f.CanInt() {\n\t\t\t\t\tm[\"offset\"] = f.Int()\n\t\t\t\t}\n\t\t\t}\n\t\t\treturn m\n\t\t}\n")
	fmt.Fprintf(body, "\t\trv := reflect.ValueOf(v)\n\t\tif !rv.IsValid() {\n\t\t\treturn nil\n\t\t}\n\t\tif rv.Kind() == reflect.Ptr && !rv.IsNil() {\n\t\t\trv = rv.Elem()\n\t\t}\n\t\tswitch rv.Kind() {\n\t\tcase reflect.Slice, reflect.Array:\n\t\t\tif rv.Kind() == reflect.Slice && rv.IsNil() {\n\t\t\t\treturn map[string]interface{}{\"nil\": true, \"elems\": []int64{}}\n\t\t\t}\n\t\t\tel := []int64{}\n\t\t\tfor i := 0; i < rv.Len(); i++ {\n\t\t\t\tx := rv.Index(i)\n\t\t\t\tif x.CanInt() {\n\t\t\t\t\tel = append(el, x.Int())\n\t\t\t\t} else if x.CanUint() {\n\t\t\t\t\tel = append(el, int64(x.Uint()))\n\t\t\t\t}\n\t\t\t}\n\t\t\treturn map[string]interface{}{\"nil\": false, \"elems\": el}\n\t\tcase reflect.String:\n\t\t\tel := []int64{}\n\t\t\tfor _, b := range []byte(rv.String()) {\n\t\t\t\tel = append(el, int64(b))\n\t\t\t}\n\t\t\treturn map[string]interface{}{\"nil\": false, \"elems\": el}\n\t\tcase reflect.Bool:\n\t\t\treturn rv.Bool()\n\t\t}\n\t\tif rv.CanInt() {\n\t\t\treturn fmt.Sprint(rv.Int())\n\t\t}\n\t\tif rv.CanUint() {\n\t\t\treturn fmt.Sprint(rv.Uint())\n\t\t}\n\t\treturn fmt.Sprint(v)\n\t}\n")
	fmt.Fprintf(body, "\tvar res []interface{}\n")
	for i := 0; i < nres; i++ {
		if isErrorType(sig.Results().At(i).Type()) {
			fmt.Fprintf(body, "\tif r%d == nil {\n\t\tres = append(res, map[string]interface{}{\"error\": nil})\n\t} else {\n\t\tres = append(res, enc(r%d))\n\t}\n", i, i)
		} else {
			fmt.Fprintf(body, "\tres = append(res, enc(r%d))\n", i)
		}
	}
	fmt.Fprintf(body, "\tout[\"results\"] = res\n\tvar ps []interface{}\n")
	for i := range cins {
		fmt.Fprintf(body, "\tps = append(ps, enc(p%d))\n", i)
	}
	fmt.Fprintf(body, "\tout[\"params\"] = ps\n}\n")
	var ips []string
	for p := range imports {
		ips = append(ips, p)
	}
	sort.Strings(ips)
	for _, p := range ips {
		fmt.Fprintf(&sb, "\t%s %q\n", imports[p], p)
	}
	sb.WriteString(")\n\nvar _ = errors.Is\nvar _ = reflect.ValueOf\n\n")
	sb.WriteString(body.String())
	rf.GoTest = sb.String()
	// run it
	pkgDir := filepath.Dir(u.Fset.Position(pkg.Syntax[0].Pos()).Filename)
	rf.PkgDir = pkgDir
	testFile := filepath.Join(scratch, "replay_test.go")
	os.WriteFile(testFile, []byte(rf.GoTest), 0o644)
	ov := map[string]map[string]string{"Replace": {filepath.Join(pkgDir, "zz_govc_replay_test.go"): testFile}}
	ovb, _ := json.Marshal(ov)
	ovFile := filepath.Join(scratch, "ov.json")
	os.WriteFile(ovFile, ovb, 0o644)
	ctx, cancel := context.WithTimeout(context.Background(), 180*time.Second)
	defer cancel()
	cmd := exec.CommandContext(ctx, "go", "test", "-overlay", ovFile, "-vet=off", "-count=1", "-timeout", "60s", "-run", "^TestGovcReplay$", "-v", ".")
	cmd.Dir = pkgDir
	cmd.Env = append(os.Environ(), "GOFLAGS=-mod=mod", "GOPROXY=off", "GOSUMDB=off", "GOTOOLCHAIN=local")
	var buf bytes.Buffer
	cmd.Stdout = &buf
	cmd.Stderr = &buf
	cmd.Run()
	outTxt := buf.String()
	idx := strings.Index(outTxt, "GOVC-REPLAY ")
	if idx < 0 {
		if strings.Contains(outTxt, "panic: test timed out") {
			rf.Observed = map[string]interface{}{"hang": true}
			rf.Verdict = "the real function did not return within 60 s on the model's input"
			rf.Confirmed = true
			return
		}
		rf.Verdict = "no-failing-input-found: replay test did not run: " + truncate(outTxt, 1500)
		return
	}
	line := outTxt[idx+len("GOVC-REPLAY "):]
	if j := strings.Index(line, "\n"); j >= 0 {
		line = line[:j]
	}
	var obs map[string]interface{}
	if err := json.Unmarshal([]byte(line), &obs); err != nil {
		rf.Verdict = "no-failing-input-found: cannot parse replay output"
		return
	}
	rf.Observed = obs
	if p, ok := obs["panic"]; ok {
		if len(c.PanicsWhen) == 0 {
			rf.Verdict = fmt.Sprintf("the real function panics on the model's input: %v", p)
			rf.Confirmed = true
			return
		}
		rf.Verdict = fmt.Sprintf("no-failing-input-found: the function panicked (%v) and its contract allows some panics", p)
		return
	}
	if len(c.Lets) > 0 {
		rf.Verdict = "no-failing-input-found: the real function returns normally on the model's input; its postconditions mention ghost bindings of internal values and cannot be re-evaluated from outputs alone"
		return
	}
	// re-evaluate every ensures clause on the observed values
	failedClause, err := evalEnsuresConcrete(u, c, cins, obs, scratch)
	if err != "" {
		rf.Verdict = "no-failing-input-found: " + err
		return
	}
	if failedClause != "" {
		rf.Verdict = "on the model's input the real function returns values that falsify: ensures " + failedClause
		rf.Confirmed = true
		return
	}
	rf.Verdict = "no-failing-input-found: the real function satisfies its postconditions on the model's input (the failed obligation is an intermediate one)"
}

func toBig(v interface{}) *big.Int {
	switch x := v.(type) {
	case float64:
		return big.NewInt(int64(x))
	case string:
		b, _ := new(big.Int).SetString(x, 10)
		if b == nil {
			return big.NewInt(0)
		}
		return b
	case bool:
		if x {
			return big.NewInt(1)
		}
		return big.NewInt(0)
	}
	return big.NewInt(0)
}

// concreteValue builds a Value of Go type t from an observed JSON value.
func (x *Exec) concreteValue(e *Env, t types.Type, v interface{}) Value {
	mkElem := func(et types.Type, b *big.Int) *Term {
		s := e.R().sortOf(et)
		if s.K == KBV {
			return BVC(b, s.W)
		}
		if s == BoolS {
			return BoolC(b.Sign() != 0)
		}
		return IntB(b)
	}
	elems := func(m map[string]interface{}) []*big.Int {
		var r []*big.Int
		if l, ok := m["elems"].([]interface{}); ok {
			for _, q := range l {
				r = append(r, toBig(q))
			}
		}
		return r
	}
	switch u := t.Underlying().(type) {
	case *types.Basic:
		if u.Info()&types.IsString != 0 {
			m, _ := v.(map[string]interface{})
			el := elems(m)
			arr := ConstArr(e.zeroElem(byteT))
			for i, b := range el {
				arr = Store(arr, IntC(int64(i)), mkElem(byteT, b))
			}
			a := x.alloc()
			e.st.mem[a] = ArrayV{T: arr, N: -1, Elem: byteT}
			return SliceV{Alloc: a, Off: IntC(0), Len: IntC(int64(len(el))), Cap: IntC(int64(len(el))), Elem: byteT, IsString: true, Nil: FalseT, Typ: t}
		}
		return Scalar{mkElem(t, toBig(v)), t}
	case *types.Slice:
		m, _ := v.(map[string]interface{})
		el := elems(m)
		arr := ConstArr(e.zeroElem(u.Elem()))
		for i, b := range el {
			arr = Store(arr, IntC(int64(i)), mkElem(u.Elem(), b))
		}
		a := x.alloc()
		e.st.mem[a] = ArrayV{T: arr, N: -1, Elem: u.Elem()}
		isNil := false
		if b, ok := m["nil"].(bool); ok {
			isNil = b
		}
		return SliceV{Alloc: a, Off: IntC(0), Len: IntC(int64(len(el))), Cap: IntC(int64(len(el))), Elem: u.Elem(), Nil: BoolC(isNil), Typ: t}
	case *types.Array:
		m, _ := v.(map[string]interface{})
		el := elems(m)
		arr := ConstArr(e.zeroElem(u.Elem()))
		for i, b := range el {
			arr = Store(arr, IntC(int64(i)), mkElem(u.Elem(), b))
		}
		return ArrayV{T: arr, N: u.Len(), Elem: u.Elem(), Typ: t}
	case *types.Pointer:
		if a, ok := u.Elem().Underlying().(*types.Array); ok {
			av := x.concreteValue(e, types.NewArray(a.Elem(), a.Len()), v)
			al := x.alloc()
			e.st.mem[al] = av
			return PtrV{Alloc: al, Nil: FalseT, Typ: t}
		}
	case *types.Interface:
		if isErrorType(t) {
			m, _ := v.(map[string]interface{})
			if m == nil || m["error"] == nil {
				return ErrV{Nil: TrueT, Kind: IntC(0), Type: IntC(0), Off: IntC(0)}
			}
			kind := int64(1 << 40)
			if s, ok := m["is"].(string); ok {
				kind = int64(x.errKindID(s))
			}
			tn, _ := m["type"].(string)
			off := int64(0)
			if f, ok := m["offset"].(float64); ok {
				off = int64(f)
			}
			return ErrV{Nil: FalseT, Kind: IntC(kind), Type: IntC(int64(x.errTypeID(tn))), Off: IntC(off)}
		}
	}
	panic("cannot rebuild a value of type " + t.String())
}

func evalEnsuresConcrete(u *Universe, c *Contract, cins []concreteInput, obs map[string]interface{}, scratch string) (failed string, errMsg string) {
	defer func() {
		if r := recover(); r != nil {
			errMsg = fmt.Sprintf("cannot evaluate the postconditions on concrete values: %v", r)
		}
	}()
	pkg := u.Pkgs[c.PkgPath]
	_, obj := findFunc(pkg, c.Key)
	sig := obj.Type().(*types.Signature)
	x := u.newExec(pkg, "replay", reprFrom(c.ReprBV))
	x.C = c
	x.frames = []*frame{{pkg: pkg, fn: nil, c: c, sig: sig, name: "replay"}}
	pre := newState()
	post := newState()
	epre := &Env{x: x, st: pre, pkg: contractPkgView(pkg), contract: true}
	epost := &Env{x: x, st: post, pkg: contractPkgView(pkg), contract: true}
	names := map[string]Value{}
	oldNames := map[string]Value{}
	params, _ := obs["params"].([]interface{})
	results, _ := obs["results"].([]interface{})
	for i, ci := range cins {
		t := sig.Params().At(i).Type()
		// entry value from the model
		var in interface{}
		switch ci.ib.Kind {
		case "scalar", "scalarbv", "bool":
			in = ci.val.String()
		default:
			var el []interface{}
			for _, b := range ci.elems {
				el = append(el, b.String())
			}
			in = map[string]interface{}{"nil": false, "elems": el}
		}
		ov := x.concreteValue(epre, t, in)
		oldNames[c.Params[i]] = ov
		// post-state value of the same parameter (memory may have been written)
		nv := ov
		if i < len(params) {
			switch t.Underlying().(type) {
			case *types.Slice, *types.Pointer:
				nv = x.concreteValue(epost, t, params[i])
			default:
				nv = x.concreteValue(epost, t, in)
			}
		}
		names[c.Params[i]] = nv
	}
	for i := 0; i < sig.Results().Len() && i < len(results); i++ {
		names[c.Results[i]] = x.concreteValue(epost, sig.Results().At(i).Type(), results[i])
	}
	names["#old"] = namesBox{oldNames}
	ce := &Env{x: x, st: post, pkg: contractPkgView(pkg), names: names, contract: true, oldSt: pre}
	for _, en := range c.Ensures {
		ce.where = en.Line
		t := ce.boolTerm(ce.expr(en.Expr))
		if t.IsTrue() {
			continue
		}
		if t.IsFalse() {
			return en.Text, ""
		}
		if un := uninterpretedIn(t, x.defs); un != "" {
			return "", "postcondition mentions the uninterpreted operation " + un + " and cannot be evaluated on concrete outputs: " + en.Text
		}
		// undecided by the simplifier: ask a solver about the ground formula
		ob := &Obl{Name: "ground", PC: x.withGlobals(post.pc), Goal: t, Defs: "", DefNames: x.defOrder}
		var defs strings.Builder
		for _, n := range x.defOrder {
			defs.WriteString(x.defs[n] + "\n")
		}
		ob.Defs = defs.String()
		fn := filepath.Join(scratch, "ground.smt2")
		os.WriteFile(fn, []byte(ob.smt(nil)), 0o644)
		r := portfolio(fn, 20, false)
		switch r.status {
		case "unsat":
			continue
		case "sat":
			return en.Text, ""
		default:
			return "", "ground postcondition undecided: " + en.Text
		}
	}
	return "", ""
}

func runReplay(prop, file string, opt *Options) int {
	data, err := os.ReadFile(file)
	if err != nil {
		fmt.Fprintln(os.Stderr, err)
		return 2
	}
	var rf ReplayFile
	if err := json.Unmarshal(data, &rf); err != nil {
		fmt.Fprintln(os.Stderr, err)
		return 2
	}
	fmt.Printf("obligation %s (%s) at %s\nsolver: %s %s\nverdict: %s\n", rf.Obligation, rf.Kind, rf.Where, rf.Solver, rf.Status, rf.Verdict)
	if rf.GoTest == "" || rf.PkgDir == "" {
		fmt.Println("no concrete input recorded; solver output:")
		fmt.Println(rf.Output)
		if rf.Confirmed {
			return 1
		}
		return 0
	}
	scratch, _ := os.MkdirTemp("", "govc-replay-")
	defer os.RemoveAll(scratch)
	testFile := filepath.Join(scratch, "replay_test.go")
	os.WriteFile(testFile, []byte(rf.GoTest), 0o644)
	ov := map[string]map[string]string{"Replace": {filepath.Join(rf.PkgDir, "zz_govc_replay_test.go"): testFile}}
	ovb, _ := json.Marshal(ov)
	ovFile := filepath.Join(scratch, "ov.json")
	os.WriteFile(ovFile, ovb, 0o644)
	cmd := exec.Command("go", "test", "-overlay", ovFile, "-vet=off", "-count=1", "-timeout", "60s", "-run", "^TestGovcReplay$", "-v", ".")
	cmd.Dir = rf.PkgDir
	cmd.Env = append(os.Environ(), "GOFLAGS=-mod=mod", "GOPROXY=off", "GOSUMDB=off", "GOTOOLCHAIN=local")
	cmd.Stdout = os.Stdout
	cmd.Stderr = os.Stdout
	cmd.Run()
	fmt.Printf("inputs: %v\n", rf.Inputs)
	if rf.Confirmed {
		return 1
	}
	return 0
}

// uninterpretedIn returns the name of an uninterpreted function or free symbol in t, if any.
func uninterpretedIn(t *Term, defs map[string]string) string {
	seen := map[*Term]bool{}
	var walk func(t *Term) string
	walk = func(t *Term) string {
		if seen[t] {
			return ""
		}
		seen[t] = true
		if t.Op == "app" {
			if _, ok := defs[t.Name]; !ok {
				return t.Name
			}
		}
		if t.Op == "var" && len(t.Bound) == 0 && !strings.Contains(t.Name, "!") {
			return ""
		}
		for _, a := range t.Args {
			if r := walk(a); r != "" {
				return r
			}
		}
		return ""
	}
	return walk(t)
}
