#!/bin/bash
# regenerates the evidence of every check on the current (clean) /repo tree, validates it, then commits /verif
cd /verif
if [ -n "$(git -C /repo status --short | grep -v '^??')" ]; then echo "/repo has uncommitted changes: not committing"; exit 1; fi
./tools_regress.sh | cut -c1-120
python3-vt - <<'PY' || exit 1
import json,jsonschema,glob,sys
sch=json.load(open('/root/.vp/EVIDENCE.schema.json'))
bad=0
for f in sorted(glob.glob('/verif/evidence/*.json')):
    e=json.load(open(f)); jsonschema.validate(e,sch)
    c=e['coverage']
    if e['level']=='proof' and c['obligations']!=c['discharged']: bad+=1; print('MISMATCH',f)
jsonschema.validate(json.load(open('/verif/MANIFEST.json')),json.load(open('/root/.vp/MANIFEST.schema.json')))
print('evidence and manifest valid; mismatches:',bad)
sys.exit(1 if bad else 0)
PY
git add -A; git commit -qm "${1:-regenerated evidence}"; echo committed
