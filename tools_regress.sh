#!/bin/bash
# runs the quick command of every registered check on the current tree; prints one line per check
cd /verif
for p in $(jq -r '.checks[].property_id' MANIFEST.json); do
  out=$(./check $p quick 2>&1); rc=$?
  echo "$p exit=$rc $(echo "$out" | grep -v '^WARNING' | tail -1)"
  echo "$out" | grep "^VIOLATION\|^UNDECIDED\|^KNOWN" | head -3
done
