#!/bin/bash
# Applies every seeded change under /verif/seeded to /repo (git apply), runs the quick check of its
# property, records the verdict in seeded/<id>/verdict.txt and regenerates seeded/INDEX.md.
# /repo is restored after every change (git checkout -- .). Usage: tools_seedrun.sh [name-prefix]
cd /verif
pre="${1:-}"
for d in seeded/${pre}*/; do
  n=$(basename $d); prop=${n%_*}
  [ -f $d/patch.diff ] || continue
  if ! git -C /repo apply --check /verif/$d/patch.diff 2>/dev/null; then echo "$n: patch does not apply" | tee $d/verdict.txt; continue; fi
  git -C /repo apply /verif/$d/patch.diff
  out=$(timeout 1500 ./check $prop quick 2>&1); rc=$?
  git -C /repo checkout -- .
  first=$(echo "$out" | grep "^VIOLATION" | head -1 | sed 's/.*obligation=//')
  nviol=$(echo "$out" | grep -c "^VIOLATION")
  und=$(echo "$out" | grep "^UNDECIDED" | head -1 | cut -c1-160)
  echo "exit=$rc violations=$nviol first=$first $und" > $d/verdict.txt
  echo "$n exit=$rc violations=$nviol first=$first $und"
done
{
echo "# Seeded property-breaking changes and the verdict of the checks"
echo
echo "Each directory holds patch.diff (the change, never committed to /repo), demo_test.go (fails with the"
echo "change, passes without), meta.json (from the sub-agent that produced it) and verdict.txt (exit code of"
echo "\`./check <property> quick\` with the change applied, number of VIOLATION lines, first failed obligation)."
echo
echo "| change | what it does | check exit | first failed obligation |"
echo "|---|---|---|---|"
for d in seeded/*/; do
  n=$(basename $d); [ -f $d/meta.json ] || continue
  sum=$(jq -r .summary $d/meta.json | tr '\n|' '  ' | cut -c1-220)
  v=$(cat $d/verdict.txt 2>/dev/null)
  rc=$(echo "$v" | sed -n 's/^exit=\([0-9]*\).*/\1/p'); first=$(echo "$v" | sed -n 's/.*first=\([^ ]*\).*/\1/p')
  echo "| $n | $sum | $rc | \`$first\` |"
done
} > seeded/INDEX.md
