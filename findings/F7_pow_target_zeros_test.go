// Demonstration of finding F7 (property C11). Place in /repo/pkg/pow and run
//   go test -vet=off -count=1 -run TestF7 ./pkg/pow/
// Mine computed the required number of trailing zeros as uint(ceil(log(len*target)/ln 3)) in float64:
// (1) a target one ulp above 3^k/len rounds down to k zeros, so the returned nonce scores below the
// target; (2) a target below 1/len makes the logarithm negative, uint() of it is a huge number and the
// worker goroutine panics ("invalid trailing zeros target"), which kills the whole process.
package pow

import (
	"context"
	"encoding/binary"
	"math"
	"os"
	"os/exec"
	"testing"
)

func TestF7ScoreReachesTargetOneUlpAbove(t *testing.T) {
	data := []byte{0}
	target := math.Nextafter(3, 4) // one ulp above 3^3/9
	nonce, err := New(1).Mine(context.Background(), data, target)
	if err != nil {
		t.Fatal(err)
	}
	msg := append(append([]byte{}, data...), make([]byte, 8)...)
	binary.LittleEndian.PutUint64(msg[len(data):], nonce)
	if s := Score(msg); s < target {
		t.Fatalf("Mine returned nonce %d with score %v < target %v", nonce, s, target)
	}
}

func TestF7LowTargetDoesNotCrash(t *testing.T) {
	if os.Getenv("F7_CHILD") == "1" {
		if _, err := New(1).Mine(context.Background(), []byte{0}, 0.01); err != nil {
			os.Exit(3)
		}
		os.Exit(0)
	}
	cmd := exec.Command(os.Args[0], "-test.run=TestF7LowTargetDoesNotCrash")
	cmd.Env = append(os.Environ(), "F7_CHILD=1")
	if out, err := cmd.CombinedOutput(); err != nil {
		t.Fatalf("Mine(data, 0.01) crashed the process: %v\n%.400s", err, out)
	}
}
