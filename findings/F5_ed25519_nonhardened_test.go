// Demonstration of finding F5 (property C02), not repaired. Place in /repo/pkg/slip10 and run
//   go test -vet=off -count=1 -run TestF5 ./pkg/slip10/
// SLIP-0010 defines only hardened derivation for ed25519; a non-hardened child of an ed25519 private
// key must fail with an error. ExtendedKey.DeriveChild succeeds instead (eddsa.Seed.Shift cannot see
// the index) and returns a key that no conforming implementation can produce.
package slip10_test

import (
	"testing"

	"github.com/wollac/iota-crypto-demo/pkg/slip10"
	"github.com/wollac/iota-crypto-demo/pkg/slip10/eddsa"
)

func TestF5NonHardenedEd25519MustFail(t *testing.T) {
	master, err := slip10.NewMasterKey([]byte("000102030405060708090a0b0c0d0e0f"), eddsa.Ed25519())
	if err != nil {
		t.Fatal(err)
	}
	child, err := master.DeriveChild(0) // non-hardened index
	if err == nil {
		t.Fatalf("non-hardened ed25519 derivation succeeded with key %x", child.Key.Bytes())
	}
}
