// Demonstration of finding F2 (property C10). Place in /repo/pkg/bip32path and run
//   go test -vet=off -count=1 -run TestF2 ./pkg/bip32path/
// parseUint31 called strconv.ParseUint with base 0, so the digits of a component were read as a Go
// literal: a leading zero switched to octal ("m/010" gave index 8, "m/08" was rejected).
package bip32path_test

import (
	"testing"

	"github.com/wollac/iota-crypto-demo/pkg/bip32path"
)

func TestF2ComponentsAreDecimal(t *testing.T) {
	for s, want := range map[string]uint32{"m/010": 10, "m/08": 8, "m/0009'": 9 | 1<<31, "m/00": 0} {
		p, err := bip32path.ParsePath(s)
		if err != nil {
			t.Errorf("ParsePath(%q): unexpected error %v", s, err)
			continue
		}
		if len(p) != 1 || p[0] != want {
			t.Errorf("ParsePath(%q) = %v, want [%d]", s, p, want)
		}
	}
}
