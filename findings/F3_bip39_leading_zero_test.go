// Demonstration of finding F3 (property C03). Place in /repo/pkg/bip39 and run
//   go test -vet=off -count=1 -run TestF3 ./pkg/bip39/
// MnemonicToEntropy re-pads the entropy recovered from a big.Int by appending zero bytes, although
// big.Int.Bytes drops leading zero bytes: every entropy whose first byte is zero (and that is not all
// zero) failed to round-trip (ErrInvalidChecksum).
package bip39_test

import (
	"bytes"
	"testing"

	"github.com/wollac/iota-crypto-demo/pkg/bip39"
)

func TestF3LeadingZeroEntropyRoundTrips(t *testing.T) {
	for _, n := range []int{16, 20, 32, 64} {
		entropy := make([]byte, n)
		for i := 1; i < n; i++ {
			entropy[i] = byte(i)
		}
		m, err := bip39.EntropyToMnemonic(entropy)
		if err != nil {
			t.Fatal(err)
		}
		back, err := bip39.MnemonicToEntropy(m)
		if err != nil {
			t.Errorf("size %d: MnemonicToEntropy(EntropyToMnemonic(%x)): %v", n, entropy, err)
			continue
		}
		if !bytes.Equal(back, entropy) {
			t.Errorf("size %d: got %x, want %x", n, back, entropy)
		}
	}
}
