package btccurve

import (
	"math/big"
	"testing"
)

func TestF6SpecialCases(t *testing.T) {
	c := Secp256k1()
	G := c.Params()
	try := func(name string, f func()) {
		defer func() {
			if r := recover(); r != nil {
				t.Errorf("%s panics: %v", name, r)
			}
		}()
		f()
	}
	try("Add(G,G)", func() {
		x, y := c.Add(G.Gx, G.Gy, G.Gx, G.Gy)
		dx, dy := c.Double(G.Gx, G.Gy)
		if x.Cmp(dx) != 0 || y.Cmp(dy) != 0 {
			t.Errorf("Add(G,G) != Double(G)")
		}
	})
	try("Add(G,-G)", func() {
		ny := new(big.Int).Sub(G.P, G.Gy)
		x, y := c.Add(G.Gx, G.Gy, G.Gx, ny)
		if x.Sign() != 0 || y.Sign() != 0 {
			t.Errorf("Add(G,-G) != (0,0): %v %v", x, y)
		}
	})
	try("Add(G,0)", func() {
		x, y := c.Add(G.Gx, G.Gy, new(big.Int), new(big.Int))
		if x.Cmp(G.Gx) != 0 || y.Cmp(G.Gy) != 0 {
			t.Errorf("Add(G,(0,0)) != G")
		}
	})
	try("Double(0,0)", func() {
		x, y := c.Double(new(big.Int), new(big.Int))
		if x.Sign() != 0 || y.Sign() != 0 {
			t.Errorf("Double(0,0) != (0,0)")
		}
	})
	try("ScalarBaseMult(0)", func() {
		x, y := c.ScalarBaseMult([]byte{0})
		if x == nil || y == nil || x.Sign() != 0 || y.Sign() != 0 {
			t.Errorf("ScalarBaseMult(0) != (0,0): %v %v", x, y)
		}
	})
	try("ScalarBaseMult(n)", func() {
		x, y := c.ScalarBaseMult(G.N.Bytes())
		if x.Sign() != 0 || y.Sign() != 0 {
			t.Errorf("ScalarBaseMult(n) != (0,0)")
		}
	})
	try("ScalarBaseMult(n+2)", func() {
		k := new(big.Int).Add(G.N, big.NewInt(2))
		x, y := c.ScalarBaseMult(k.Bytes())
		dx, dy := c.Double(G.Gx, G.Gy)
		if x.Cmp(dx) != 0 || y.Cmp(dy) != 0 {
			t.Errorf("ScalarBaseMult(n+2) != 2G")
		}
	})
}
