package bech32
import "testing"
func TestF1Kelvin(t *testing.T) {
	hrp, data, err := Decode("A1QVQQXFQJ0K6")
	t.Logf("%q %x %v", hrp, data, err)
	if err == nil { t.Fatal("accepted non-ASCII string") }
}
