// Demonstration of finding F4 (property C02). Place in /repo/pkg/slip10 and run
//   go test -vet=off -count=1 -run TestF4 ./pkg/slip10/
// Before the fix NewMasterKey retried on every error of Curve.NewPrivateKey, so a permanent error
// (documented as "returned to the caller") made it loop forever. The curve below stops the loop by
// panicking after 1000 attempts.
package slip10_test

import (
	"errors"
	"testing"

	"github.com/wollac/iota-crypto-demo/pkg/slip10"
)

var errPermanent = errors.New("permanent curve failure")

type brokenCurve struct{ calls int }

func (*brokenCurve) Name() string    { return "broken" }
func (*brokenCurve) HmacKey() []byte { return []byte("broken seed") }
func (c *brokenCurve) NewPrivateKey([]byte) (slip10.Key, error) {
	c.calls++
	if c.calls > 1000 {
		panic("NewMasterKey retried a permanent error 1000 times")
	}
	return nil, errPermanent
}

func TestF4PermanentCurveErrorIsReturned(t *testing.T) {
	c := &brokenCurve{}
	defer func() {
		if r := recover(); r != nil {
			t.Fatalf("%v", r)
		}
	}()
	_, err := slip10.NewMasterKey([]byte{1, 2, 3}, c)
	if !errors.Is(err, errPermanent) {
		t.Fatalf("got error %v, want the curve's permanent error", err)
	}
	if c.calls != 1 {
		t.Fatalf("NewPrivateKey called %d times, want 1", c.calls)
	}
}
